#!/bin/bash
# thorough tier: quick analysis on 4 build configurations + self-test of the checker on the variant corpus.
# The exit code is that of the analysis of the current tree only (self-test outcomes are evidence/warnings).
set -u
cd "$(dirname "$0")"
prop="$1"
vf="$(mktemp -t txlint-variants-XXXXXX.json)"
python3 selftest/run.py "$prop" "$vf" || true
TXLINT_VARIANTS="$vf" ./bin/txlint -prop "$prop" -tier thorough -repo "${TXLINT_REPO:-/repo}" -verif "$(pwd)"
rc=$?
rm -f "$vf"
exit $rc
