#!/bin/bash
# seedcheck.sh <patch> [props...] : apply a seeded change to /repo, run the quick checks, undo it.
set -u
patch="$1"; shift
props="${*:-C01 C02 C03 C04 C06 C07 C08 C09 C10 C11 C12 C13 C14 C15 C16 C17 C18}"
cd /repo && git apply "$patch" || { echo "patch does not apply"; exit 2; }
cd /verif
for p in $props; do
  out=$(./bin/txlint -prop $p -no-evidence 2>&1); rc=$?
  echo "$p rc=$rc $(echo "$out" | grep -c '^VIOLATED\|^UNDECIDED') finding(s)"
  echo "$out" | grep '^VIOLATED\|^UNDECIDED' | cut -c1-330 | head -6
done
git -C /repo checkout -- . ; git -C /repo status --short | head -3
