#!/usr/bin/env python3
"""Regenerates MANIFEST.json from the table below (single source of truth for claims)."""
import json

BASELINE = "cd /repo && GOFLAGS=-mod=mod GOPROXY=off GOSUMDB=off GOTOOLCHAIN=local go test -mod=mod -json -vet=off -count=1 -timeout 25m ./..."

NOTE = ("Trusted base: go/types + go/ssa of x/tools v0.29.0 and the analyzer; singleton abstraction (one File/Tx/Queue per scenario); "
        "unsafe casts, stdlib and third-party bodies opaque; sync/sort/flock/vfs implementations honour their contracts. "
        "Decides named structural necessary conditions of the property on every path of the current source; does not decide the behaviour itself.")

# id -> (technique, claim text, design ref)
CLAIMS = {
}

NOT_APPLICABLE = {
}

def main():
    checks = []
    for pid in sorted(CLAIMS):
        tech, text, ref = CLAIMS[pid]
        checks.append({
            "property_id": pid,
            "quick_cmd": f"./check.sh {pid} quick",
            "thorough_cmd": f"./check.sh {pid} thorough",
            "evidence_file": f"/verif/evidence/{pid}.json",
            "replay_cmd_template": "./bin/txlint -replay {path}",
            "engine": "txlint",
            "level_claimed": {"category": "other", "text": text, "design_ref": ref},
            "level_note": NOTE,
            "technique": tech,
        })
    m = {
        "version": 1,
        "setup_cmd": "cd /verif/analyzer && GOFLAGS=-mod=mod GOPROXY=off GOSUMDB=off GOTOOLCHAIN=local GOWORK=off go build -o /verif/bin/txlint .",
        "hooks": {
            "guard": "verif",
            "enable": "none: the checks are static analyses of /repo's source; nothing is built with hooks and no hook commits exist",
            "baseline_off_cmd": BASELINE,
            "source_commits": [],
            "add_only": True,
        },
        "engines": [{
            "name": "txlint",
            "path": "/verif/analyzer",
            "serves_properties": sorted(CLAIMS),
            "kind_free_text": "repository-specific static analyzer over go/packages + go/ssa: interprocedural abstract interpreter with property automata (locks, commit order, lifecycle), guard dominance, error discipline, who-may-call and layout/sibling-agreement rules",
        }],
        "checks": checks,
        "not_applicable": [{"property_id": k, "reason": v} for k, v in sorted(NOT_APPLICABLE.items())],
        "notes": "All claims are level 'other': sound decisions of named structural clauses, see DESIGN.md §3. exit 2 of a check means /repo did not load or type-check (no verdict).",
    }
    json.dump(m, open("MANIFEST.json", "w"), indent=1)
    print("MANIFEST.json:", len(checks), "checks,", len(m["not_applicable"]), "not applicable")

if __name__ == "__main__":
    import claims
    CLAIMS.update(claims.CLAIMS)
    NOT_APPLICABLE.update(claims.NOT_APPLICABLE)
    main()
