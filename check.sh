#!/bin/bash
# check.sh <Cxx> <quick|thorough>  — static analysis of /repo's current working tree for one property.
# exit 0: every obligation discharged (known findings printed as KNOWN-FINDING lines)
# exit 1: VIOLATION property=<id> replay=<path>   exit 2: /repo does not load / type-check (no verdict)
set -u
cd "$(dirname "$0")"
export GOFLAGS=-mod=mod GOPROXY=off GOSUMDB=off GOTOOLCHAIN=local GOWORK=off
prop="${1:?property id}"; tier="${2:-quick}"
need_build=0
[ -x bin/txlint ] || need_build=1
if [ $need_build = 0 ] && [ -n "$(find analyzer -name '*.go' -newer bin/txlint -print -quit 2>/dev/null)" ]; then need_build=1; fi
if [ $need_build = 1 ]; then
  mkdir -p bin
  (cd analyzer && go build -o ../bin/txlint .) || { echo "cannot build txlint" >&2; exit 2; }
fi
mkdir -p evidence
if [ "$tier" = thorough ] && [ -x ./selftest.sh ]; then
  exec ./selftest.sh "$prop"
fi
exec ./bin/txlint -prop "$prop" -tier "$tier" -repo "${TXLINT_REPO:-/repo}" -verif "$(pwd)"
