package main

// Engine B: guard dominance on go/ssa (DESIGN §2.2).
//
// blockFacts(b) is a DNF over *atoms* (ssa boolean value, polarity) that hold whenever control
// reaches b: the conjunction of the conditions of all dominating If edges, with negation, `== true/false`
// and the φ-lowering of `&&` / `||` / boolean temporaries normalised away.  Rules match atoms by their
// resolved structure (callee, field, constant), never by text.

import (
	"go/constant"
	"go/token"
	"go/types"

	"golang.org/x/tools/go/ssa"
)

type atom struct {
	v   ssa.Value
	pol bool
}

type conj []atom
type dnf []conj

const maxDisjuncts = 24

func dnfTrue() dnf { return dnf{conj{}} }

func dnfAnd(a, b dnf) dnf {
	var out dnf
	for _, x := range a {
		for _, y := range b {
			c := make(conj, 0, len(x)+len(y))
			c = append(c, x...)
			c = append(c, y...)
			out = append(out, c)
			if len(out) > maxDisjuncts {
				// too many: weaken soundly by dropping facts (keep an empty conjunction = "no knowledge")
				return dnfTrue()
			}
		}
	}
	return out
}

func dnfOr(a, b dnf) dnf {
	out := append(append(dnf{}, a...), b...)
	if len(out) > maxDisjuncts {
		return dnfTrue()
	}
	return out
}

func constBoolOf(v ssa.Value) (bool, bool) {
	if c, ok := v.(*ssa.Const); ok && c.Value != nil && c.Value.Kind() == constant.Bool {
		return constant.BoolVal(c.Value), true
	}
	return false, false
}

// condDNF: the facts implied by "v has truth value pol".
func condDNF(v ssa.Value, pol bool, depth int, seen map[ssa.Value]bool) dnf {
	if depth > 10 || seen[v] {
		return dnf{conj{{v, pol}}}
	}
	switch x := v.(type) {
	case *ssa.UnOp:
		if x.Op == token.NOT {
			return condDNF(x.X, !pol, depth+1, seen)
		}
	case *ssa.BinOp:
		if x.Op == token.EQL || x.Op == token.NEQ {
			if b, ok := constBoolOf(x.Y); ok {
				return condDNF(x.X, (b == (x.Op == token.EQL)) == pol, depth+1, seen)
			}
			if b, ok := constBoolOf(x.X); ok {
				return condDNF(x.Y, (b == (x.Op == token.EQL)) == pol, depth+1, seen)
			}
		}
	case *ssa.Phi:
		seen[v] = true
		defer delete(seen, v)
		var out dnf
		for i, e := range x.Edges {
			pred := x.Block().Preds[i]
			if b, ok := constBoolOf(e); ok {
				if b != pol {
					continue // this edge cannot produce the value
				}
				out = dnfOr(out, edgeFacts(pred, x.Block(), depth+1, seen))
				continue
			}
			out = dnfOr(out, dnfAnd(condDNF(e, pol, depth+1, seen), edgeFacts(pred, x.Block(), depth+1, seen)))
		}
		if len(out) == 0 {
			return dnf{conj{{v, pol}}}
		}
		return out
	}
	return dnf{conj{{v, pol}}}
}

// edgeFacts: facts that hold when the CFG edge pred→succ is taken.
func edgeFacts(pred, succ *ssa.BasicBlock, depth int, seen map[ssa.Value]bool) dnf {
	f := blockFactsRec(pred, depth, seen)
	if ifi, ok := pred.Instrs[len(pred.Instrs)-1].(*ssa.If); ok && pred.Succs[0] != pred.Succs[1] {
		f = dnfAnd(f, condDNF(ifi.Cond, pred.Succs[0] == succ, depth, seen))
	}
	return f
}

// blockFacts returns the DNF of facts holding at entry of b.
func blockFacts(b *ssa.BasicBlock) dnf { return blockFactsRec(b, 0, map[ssa.Value]bool{}) }

func blockFactsRec(b *ssa.BasicBlock, depth int, seen map[ssa.Value]bool) dnf {
	if depth > 10 {
		return dnfTrue()
	}
	out := dnfTrue()
	// walk the dominator chain; an If edge p→d contributes when d has p as its only predecessor
	for d := b; d != nil; d = d.Idom() {
		if len(d.Preds) != 1 {
			continue
		}
		p := d.Preds[0]
		if ifi, ok := p.Instrs[len(p.Instrs)-1].(*ssa.If); ok && p.Succs[0] != p.Succs[1] {
			out = dnfAnd(out, condDNF(ifi.Cond, p.Succs[0] == d, depth+1, seen))
		}
	}
	return out
}

// every: predicate holds on every disjunct.
func (d dnf) every(pred func(c conj) bool) bool {
	for _, c := range d {
		if !pred(c) {
			return false
		}
	}
	return true
}

func (c conj) has(pred func(a atom) bool) bool {
	for _, a := range c {
		if pred(a) {
			return true
		}
	}
	return false
}

// ---- value matchers ----

func stripConv(v ssa.Value) ssa.Value {
	for {
		switch x := v.(type) {
		case *ssa.Convert:
			v = x.X
		case *ssa.ChangeType:
			v = x.X
		default:
			return v
		}
	}
}

// loadedField: v is a load of (…).f ; returns the innermost field.
func loadedField(v ssa.Value) *types.Var {
	v = stripConv(v)
	if u, ok := v.(*ssa.UnOp); ok && u.Op == token.MUL {
		if fa, ok := u.X.(*ssa.FieldAddr); ok {
			return fieldOfAddr(fa)
		}
	}
	if f, ok := v.(*ssa.Field); ok {
		return fieldOfField(f)
	}
	return nil
}

// callTo: v is a call whose static callee is fn (or whose invoked method has that name on a named interface).
func callTo(v ssa.Value, fn *ssa.Function) *ssa.Call {
	v = stripConv(v)
	if c, ok := v.(*ssa.Call); ok && c.Common().StaticCallee() == fn && fn != nil {
		return c
	}
	return nil
}

// recvField: the field on which a method call's receiver is taken, e.g. st.data.new.Has(id) -> field "new".
func recvField(c *ssa.Call) *types.Var {
	if c == nil || len(c.Common().Args) == 0 {
		return nil
	}
	r := c.Common().Args[0]
	switch x := r.(type) {
	case *ssa.FieldAddr:
		return fieldOfAddr(x)
	case *ssa.UnOp:
		if x.Op == token.MUL {
			if fa, ok := x.X.(*ssa.FieldAddr); ok {
				return fieldOfAddr(fa)
			}
		}
	case *ssa.Field:
		return fieldOfField(x)
	}
	return nil
}

func isNilConst(v ssa.Value) bool {
	c, ok := v.(*ssa.Const)
	return ok && c.Value == nil
}

func isIntConst(v ssa.Value, n int64) bool {
	c, ok := stripConv(v).(*ssa.Const)
	if !ok || c.Value == nil || c.Value.Kind() != constant.Int {
		return false
	}
	x, exact := constant.Int64Val(c.Value)
	return exact && x == n
}

// cmpAtom decomposes atom into (op, X, Y) with polarity applied: a false `x < y` becomes `x >= y`.
func cmpAtom(a atom) (token.Token, ssa.Value, ssa.Value, bool) {
	b, ok := a.v.(*ssa.BinOp)
	if !ok {
		return 0, nil, nil, false
	}
	op := b.Op
	if !a.pol {
		switch op {
		case token.EQL:
			op = token.NEQ
		case token.NEQ:
			op = token.EQL
		case token.LSS:
			op = token.GEQ
		case token.GEQ:
			op = token.LSS
		case token.GTR:
			op = token.LEQ
		case token.LEQ:
			op = token.GTR
		default:
			return 0, nil, nil, false
		}
	}
	switch op {
	case token.EQL, token.NEQ, token.LSS, token.GEQ, token.GTR, token.LEQ:
		return op, b.X, b.Y, true
	}
	return 0, nil, nil, false
}

// ---- reachability / must-pass-through ----

type cfgEdge struct{ from, to *ssa.BasicBlock }

// reachableAvoiding: blocks reachable from start without entering blocked blocks or taking blocked edges.
// start itself is entered even if... no: if start is blocked nothing is reachable.
func reachableAvoiding(start *ssa.BasicBlock, blocked map[*ssa.BasicBlock]bool, blockedEdges map[cfgEdge]bool) map[*ssa.BasicBlock]bool {
	seen := map[*ssa.BasicBlock]bool{}
	if blocked[start] {
		return seen
	}
	work := []*ssa.BasicBlock{start}
	seen[start] = true
	for len(work) > 0 {
		b := work[len(work)-1]
		work = work[:len(work)-1]
		for _, s := range b.Succs {
			if blocked[s] || blockedEdges[cfgEdge{b, s}] || seen[s] {
				continue
			}
			seen[s] = true
			work = append(work, s)
		}
	}
	return seen
}

// postDominators over normal exits (Return blocks); panics are not exits.
func postDominators(fn *ssa.Function) map[*ssa.BasicBlock]map[*ssa.BasicBlock]bool {
	n := len(fn.Blocks)
	all := func() map[*ssa.BasicBlock]bool {
		m := make(map[*ssa.BasicBlock]bool, n)
		for _, b := range fn.Blocks {
			m[b] = true
		}
		return m
	}
	pd := map[*ssa.BasicBlock]map[*ssa.BasicBlock]bool{}
	isExit := func(b *ssa.BasicBlock) bool {
		_, ok := b.Instrs[len(b.Instrs)-1].(*ssa.Return)
		return ok
	}
	for _, b := range fn.Blocks {
		if isExit(b) {
			pd[b] = map[*ssa.BasicBlock]bool{b: true}
		} else {
			pd[b] = all()
		}
	}
	changed := true
	for changed {
		changed = false
		for i := n - 1; i >= 0; i-- {
			b := fn.Blocks[i]
			if isExit(b) {
				continue
			}
			var inter map[*ssa.BasicBlock]bool
			for _, s := range b.Succs {
				if _, isPanic := s.Instrs[len(s.Instrs)-1].(*ssa.Panic); isPanic && len(s.Succs) == 0 {
					continue // paths that end in a panic are not normal exits
				}
				if inter == nil {
					inter = map[*ssa.BasicBlock]bool{}
					for k := range pd[s] {
						inter[k] = true
					}
				} else {
					for k := range inter {
						if !pd[s][k] {
							delete(inter, k)
						}
					}
				}
			}
			if inter == nil {
				inter = map[*ssa.BasicBlock]bool{}
			}
			inter[b] = true
			if len(inter) != len(pd[b]) {
				pd[b] = inter
				changed = true
			}
		}
	}
	return pd
}

// returnsNilError: the Return's last result is the constant nil.
func returnsNilError(r *ssa.Return) bool {
	if len(r.Results) == 0 {
		return true
	}
	return isNilConst(r.Results[len(r.Results)-1])
}

func instrIndex(b *ssa.BasicBlock, in ssa.Instruction) int {
	for i, x := range b.Instrs {
		if x == in {
			return i
		}
	}
	return -1
}

// callsIn returns all call instructions (Call/Defer/Go) of fn whose static callee satisfies pred.
func callsIn(fn *ssa.Function, pred func(callee *ssa.Function, c ssa.CallInstruction) bool) []ssa.CallInstruction {
	var out []ssa.CallInstruction
	for _, b := range fn.Blocks {
		for _, ins := range b.Instrs {
			if c, ok := ins.(ssa.CallInstruction); ok {
				if pred(c.Common().StaticCallee(), c) {
					out = append(out, c)
				}
			}
		}
	}
	return out
}

// ---- interprocedural guard context ----
//
// A block of an unexported, non-escaping function is only reached through its static call sites, so the
// facts holding there are blockFacts(b) AND (OR over call sites of the facts holding at the call site).
// This keeps guard-dominance rules stable when a guarded tail of a function is extracted into a helper.

type callSiteIndex struct {
	sites   map[*ssa.Function][]ssa.CallInstruction
	escapes map[*ssa.Function]bool
}

func (p *Program) callIndex() *callSiteIndex {
	if p.callIdx != nil {
		return p.callIdx
	}
	ci := &callSiteIndex{sites: map[*ssa.Function][]ssa.CallInstruction{}, escapes: map[*ssa.Function]bool{}}
	for _, fn := range p.SrcFuncs() {
		for _, b := range fn.Blocks {
			for _, ins := range b.Instrs {
				c, isCall := ins.(ssa.CallInstruction)
				for i, op := range ins.Operands(nil) {
					if op == nil || *op == nil {
						continue
					}
					g, ok := (*op).(*ssa.Function)
					if !ok {
						continue
					}
					if isCall && i == 0 && c.Common().StaticCallee() == g {
						if _, isPlain := ins.(*ssa.Call); isPlain {
							ci.sites[g] = append(ci.sites[g], c)
						} else {
							ci.escapes[g] = true // deferred / go: executed elsewhere
						}
						continue
					}
					ci.escapes[g] = true // used as a value
				}
			}
		}
	}
	p.callIdx = ci
	return ci
}

func exportedAPI(fn *ssa.Function) bool {
	if fn.Parent() != nil {
		return false
	}
	if o := fn.Object(); o != nil && o.Exported() {
		// exported method of an unexported type is still package-internal
		if sig := fn.Signature; sig.Recv() != nil {
			if n := namedOf(sig.Recv().Type()); n != nil && !n.Obj().Exported() {
				return false
			}
		}
		return true
	}
	return false
}

// ctxFacts: facts holding at entry of b, including what every caller of b's function establishes.
func (p *Program) ctxFacts(b *ssa.BasicBlock) dnf { return p.ctxFactsRec(b, 0, map[*ssa.Function]bool{}) }

func (p *Program) ctxFactsRec(b *ssa.BasicBlock, depth int, onPath map[*ssa.Function]bool) dnf {
	f := blockFacts(b)
	fn := b.Parent()
	if depth >= 3 || onPath[fn] || fn.Parent() != nil || exportedAPI(fn) {
		return f
	}
	ci := p.callIndex()
	if ci.escapes[fn] || len(ci.sites[fn]) == 0 {
		return f
	}
	onPath[fn] = true
	defer delete(onPath, fn)
	var ctx dnf
	for _, s := range ci.sites[fn] {
		ctx = dnfOr(ctx, p.ctxFactsRec(s.Block(), depth+1, onPath))
	}
	if len(ctx) == 0 {
		return f
	}
	return dnfAnd(f, ctx)
}

// ---- boolean helper predicates ----
//
// A guard that was extracted into a helper (`if !tx.pageInBounds(id)`) appears as a call atom.  The facts
// it establishes are the conditions under which the helper returns that value.

// predicateDNF: the conditions under which the bool-returning function fn returns `want`.
func predicateDNF(fn *ssa.Function, want bool) dnf {
	var out dnf
	for _, b := range fn.Blocks {
		r, ok := b.Instrs[len(b.Instrs)-1].(*ssa.Return)
		if !ok || len(r.Results) != 1 {
			continue
		}
		v := retVal(r, 0)
		here := blockFacts(b)
		if c, isConst := constBoolOf(v); isConst {
			if c == want {
				out = dnfOr(out, here)
			}
			continue
		}
		out = dnfOr(out, dnfAnd(here, condDNF(v, want, 0, map[ssa.Value]bool{})))
	}
	return out
}

// expandPredicates conjoins, for every call atom of a small loop-free repository function returning a
// single bool, the conditions under which it returns the value the atom asserts.
func expandPredicates(p *Program, d dnf, depth int) dnf {
	if depth > 2 {
		return d
	}
	var out dnf
	for _, cj := range d {
		cur := dnf{cj}
		for _, a := range cj {
			c, ok := a.v.(*ssa.Call)
			if !ok {
				continue
			}
			sc := c.Common().StaticCallee()
			if sc == nil || !p.InRepo(sc) || len(sc.Blocks) == 0 || !p.cheap(sc) {
				continue
			}
			res := sc.Signature.Results()
			if res.Len() != 1 {
				continue
			}
			if bt, isBasic := res.At(0).Type().Underlying().(*types.Basic); !isBasic || bt.Kind() != types.Bool {
				continue
			}
			pd := expandPredicates(p, predicateDNF(sc, a.pol), depth+1)
			if len(pd) == 0 {
				continue
			}
			cur = dnfAnd(cur, pd)
		}
		out = dnfOr(out, cur)
	}
	return out
}
