package main

// Rules added after the third round: MAXSIZE-DECISION (C14).

import (
	"go/token"
	"go/types"

	"golang.org/x/tools/go/ssa"
)

// mayCallees: the repository functions a call instruction can invoke, as far as the value called is a
// function constant, a φ of function constants, or a static callee.
func mayCallees(c ssa.CallInstruction) []*ssa.Function {
	if sc := c.Common().StaticCallee(); sc != nil {
		return []*ssa.Function{sc}
	}
	var out []*ssa.Function
	seen := map[ssa.Value]bool{}
	var walk func(v ssa.Value)
	walk = func(v ssa.Value) {
		if v == nil || seen[v] {
			return
		}
		seen[v] = true
		switch x := v.(type) {
		case *ssa.Function:
			out = append(out, x)
		case *ssa.Phi:
			for _, e := range x.Edges {
				walk(e)
			}
		case *ssa.MakeClosure:
			walk(x.Fn)
		case *ssa.ChangeType:
			walk(x.X)
		}
	}
	if !c.Common().IsInvoke() {
		walk(c.Common().Value)
	}
	return out
}

// ruleMAXSIZEDECISION: whether the requested maximum size is stored in the file is decided by comparing
// it with the size stored in the file header. D15: the comparison used a local that had already been
// replaced by the requested size when the file was unbounded, so a limit on an unbounded file was
// applied in memory and never stored.
func ruleMAXSIZEDECISION(p *Program, rep *Report) {
	rep.Rule("MAXSIZE-DECISION", 1, "the open-time decision to store a new maximum size (the guard of the call that reaches initTxMaxSize) compares Options.MaxSize only with the value read from the header (metaPage.maxSize), never with a value that can itself be Options.MaxSize: otherwise the limit is applied to this instance only and a later plain open reports the old one")
	optMax := p.FieldVar("txfile", "Options", "MaxSize")
	meta := p.Named("txfile", "metaPage")
	hdrMax := p.FieldVar("txfile", "metaPage", "maxSize")
	target := p.Func("txfile", "initTxMaxSize")
	// functions from which the persisting transaction is reachable
	reach := map[*ssa.Function]bool{}
	for _, fn := range p.SrcFuncs() {
		if fnPkgPath(fn) == modPath && staticReach(p, fn)[target] {
			reach[fn] = true
		}
	}
	fromOpts := func(v ssa.Value) bool {
		return derivesFrom(v, func(b ssa.Value) bool { return loadedField(b) == optMax }, 0, map[ssa.Value]bool{})
	}
	fromHdr := func(v ssa.Value) bool {
		return derivesFrom(v, func(b ssa.Value) bool { return fieldGetOf(b, meta) == hdrMax }, 0, map[ssa.Value]bool{})
	}
	n := 0
	for _, fn := range p.SrcFuncs() {
		if fnPkgPath(fn) != modPath || reach[fn] && fn == target {
			continue
		}
		for _, b := range fn.Blocks {
			for _, ins := range b.Instrs {
				c, ok := ins.(ssa.CallInstruction)
				if !ok {
					continue
				}
				hit := false
				for _, g := range mayCallees(c) {
					if reach[g] || g == target {
						hit = true
					}
				}
				if !hit {
					continue
				}
				// comparisons of the requested size in the guard context of the call
				seen := map[ssa.Value]bool{}
				for _, cj := range p.ctxFacts(b) {
					for _, a := range cj {
						op, x, y, ok := cmpAtom(a)
						if !ok || seen[a.v] {
							continue
						}
						var other ssa.Value
						switch {
						case loadedField(x) == optMax:
							other = y
						case loadedField(y) == optMax:
							other = x
						default:
							continue
						}
						if _, isConst := stripConv(other).(*ssa.Const); isConst {
							continue
						}
						seen[a.v] = true
						n++
						rep.Analysed(funcName(fn))
						key := funcName(fn) + "|update-decision|" + cmpClass(op)
						pos := p.InstrPos(a.v.(ssa.Instruction))
						switch {
						case fromOpts(other):
							rep.Bad("MAXSIZE-DECISION", key, pos, "the requested maximum size is compared with a value that can be the requested size itself (a local already replaced by Options.MaxSize): for a so far unbounded file the comparison is always 'equal', the new limit is used by this instance but never stored in the header")
						case fromHdr(other):
							rep.OK("MAXSIZE-DECISION", key, pos, "requested size compared with the size stored in the header")
						default:
							rep.OK("MAXSIZE-DECISION", key, pos, "requested size compared with a value not derived from the request")
						}
					}
				}
			}
		}
	}
	if n == 0 {
		rep.OK("MAXSIZE-DECISION", "unconditional", "", "no call reaching initTxMaxSize is guarded by a comparison of Options.MaxSize: nothing to decide")
	}
}

func cmpClass(op token.Token) string {
	switch op {
	case token.EQL, token.NEQ:
		return "equality"
	}
	return "order"
}

// existsDep: v may depend (data dependence, or control dependence of a φ on a comparison) on a value
// accepted by base; calls depend on their arguments and on base values read inside a repository callee.
func existsDep(p *Program, v ssa.Value, base func(ssa.Value) bool, seen map[ssa.Value]bool, depth int) bool {
	if v == nil || seen[v] || depth > 12 {
		return false
	}
	seen[v] = true
	if base(v) {
		return true
	}
	switch x := v.(type) {
	case *ssa.Convert:
		return existsDep(p, x.X, base, seen, depth+1)
	case *ssa.ChangeType:
		return existsDep(p, x.X, base, seen, depth+1)
	case *ssa.BinOp:
		return existsDep(p, x.X, base, seen, depth+1) || existsDep(p, x.Y, base, seen, depth+1)
	case *ssa.Phi:
		for i, e := range x.Edges {
			if existsDep(p, e, base, seen, depth+1) {
				return true
			}
			for _, cj := range edgeFacts(x.Block().Preds[i], x.Block(), 0, map[ssa.Value]bool{}) {
				for _, a := range cj {
					if _, l, r, ok := cmpAtom(a); ok && (existsDep(p, l, base, map[ssa.Value]bool{}, depth+1) || existsDep(p, r, base, map[ssa.Value]bool{}, depth+1)) {
						return true
					}
				}
			}
		}
	case *ssa.Extract:
		return existsDep(p, x.Tuple, base, seen, depth+1)
	case *ssa.Call:
		for _, a := range x.Common().Args {
			if existsDep(p, a, base, seen, depth+1) {
				return true
			}
		}
		if sc := x.Common().StaticCallee(); sc != nil && p.InRepo(sc) {
			for _, b := range sc.Blocks {
				for _, ins := range b.Instrs {
					if val, ok := ins.(ssa.Value); ok && base(val) {
						return true
					}
				}
			}
		}
	case *ssa.UnOp:
		if a, ok := x.X.(*ssa.Alloc); ok && a.Referrers() != nil {
			for _, r := range *a.Referrers() {
				if st, ok := r.(*ssa.Store); ok && st.Addr == ssa.Value(a) && existsDep(p, st.Val, base, seen, depth+1) {
					return true
				}
			}
		}
	case *ssa.Parameter:
		// a helper: every call site must feed a dependent value
		fn := x.Parent()
		pi := paramIndex(fn, x)
		sites := p.callIndex().sites[fn]
		if pi < 0 || len(sites) == 0 || depth > 6 {
			return false
		}
		for _, s := range sites {
			if pi >= len(s.Common().Args) || !existsDep(p, s.Common().Args[pi], base, map[ssa.Value]bool{}, depth+3) {
				return false
			}
		}
		return true
	}
	return false
}

// structFieldValues: the values a struct-typed SSA value can carry in the named field, when the value is
// a composite literal (alloc + field stores + load), a φ of such, or the result of a repository function
// returning one.  ok=false: construction not resolved.
func structFieldValues(p *Program, v ssa.Value, field string, depth int) (vals []ssa.Value, ok bool) {
	if depth > 3 {
		return nil, false
	}
	switch x := v.(type) {
	case *ssa.UnOp:
		a, isAlloc := x.X.(*ssa.Alloc)
		if x.Op != token.MUL || !isAlloc || a.Referrers() == nil {
			return nil, false
		}
		for _, r := range *a.Referrers() {
			fa, isFA := r.(*ssa.FieldAddr)
			if !isFA || fieldOfAddr(fa) == nil || fieldOfAddr(fa).Name() != field || fa.Referrers() == nil {
				continue
			}
			for _, rr := range *fa.Referrers() {
				if st, isSt := rr.(*ssa.Store); isSt && st.Addr == ssa.Value(fa) {
					vals = append(vals, st.Val)
				}
			}
		}
		return vals, len(vals) > 0
	case *ssa.Phi:
		for _, e := range x.Edges {
			vs, ok := structFieldValues(p, e, field, depth+1)
			if !ok {
				return nil, false
			}
			vals = append(vals, vs...)
		}
		return vals, true
	case *ssa.Call:
		sc := x.Common().StaticCallee()
		if sc == nil || !p.InRepo(sc) || len(sc.Blocks) == 0 {
			return nil, false
		}
		for _, b := range sc.Blocks {
			if r, isRet := b.Instrs[len(b.Instrs)-1].(*ssa.Return); isRet && len(r.Results) == 1 {
				vs, ok := structFieldValues(p, r.Results[0], field, depth+1)
				if !ok {
					return nil, false
				}
				vals = append(vals, vs...)
			}
		}
		return vals, len(vals) > 0
	}
	return nil, false
}

// ruleTAILOFFSET: the queue tail stored by a flush is where the next event will be appended after a
// reopen.  When the flush ends inside an event that is still being written, the only record of where
// that event begins is buffer.eventHdrOffset; the page's EndOff already includes the partial event.
func ruleTAILOFFSET(p *Program, rep *Report) {
	rep.Rule("TAIL-OFFSET", 1, "the offset stored in the queue header's tail position by a flush depends on the page's end offset AND on the write buffer's record of where an unfinished event begins (buffer.eventHdrOffset): a tail computed any other way includes or cuts bytes of the event still being written, so that after a reopen new events are appended at the wrong offset and flushed events are lost or garbage is delivered")
	tail := p.FieldVar("pq", "queuePage", "tail")
	hdrOff := p.FieldVar("pq", "buffer", "eventHdrOffset")
	endOff := p.FieldVar("pq", "pageMeta", "EndOff")
	wp := p.Method("pq", "access", "WritePosition")
	isLoad := func(f *types.Var) func(ssa.Value) bool {
		return func(v ssa.Value) bool { return loadedField(v) == f }
	}
	n := 0
	for _, fn := range p.SrcFuncs() {
		for _, c := range callsIn(fn, func(callee *ssa.Function, _ ssa.CallInstruction) bool { return callee == wp }) {
			args := c.Common().Args
			if len(args) < 3 {
				continue
			}
			fa, ok := args[1].(*ssa.FieldAddr)
			if !ok || fieldOfAddr(fa) != tail {
				continue
			}
			n++
			rep.Analysed(funcName(fn))
			key := funcName(fn) + "|tail.off"
			vals, ok := structFieldValues(p, args[2], "off", 0)
			if !ok {
				rep.Unknown("TAIL-OFFSET", key, p.InstrPos(c), "construction of the position written to the tail not resolved")
				continue
			}
			depHdr, depEnd := false, false
			for _, v := range vals {
				depHdr = depHdr || existsDep(p, v, isLoad(hdrOff), map[ssa.Value]bool{}, 0)
				depEnd = depEnd || existsDep(p, v, isLoad(endOff), map[ssa.Value]bool{}, 0)
			}
			switch {
			case depHdr && depEnd:
				rep.OK("TAIL-OFFSET", key, p.InstrPos(c), "tail offset depends on the page end offset and on buffer.eventHdrOffset")
			case !depHdr:
				rep.Bad("TAIL-OFFSET", key, p.InstrPos(c), "the tail offset written by the flush does not depend on buffer.eventHdrOffset: when the flush ends inside an unfinished event the stored tail is not the start of that event, and after a reopen the writer appends at a wrong offset (events lost / garbage delivered)")
			default:
				rep.Bad("TAIL-OFFSET", key, p.InstrPos(c), "the tail offset written by the flush does not depend on the last page's end offset")
			}
		}
	}
	if n == 0 {
		rep.Unknown("TAIL-OFFSET", "anchor", "", "no WritePosition to queuePage.tail found (anchor lost)")
	}
}

// areaOfMarkerAddr: for &x.<area>.endMarker returns the name of the area field ("data" / "meta").
func areaOfMarkerAddr(v ssa.Value, endMarker *types.Var) string {
	fa, ok := v.(*ssa.FieldAddr)
	if !ok || fieldOfAddr(fa) != endMarker {
		return ""
	}
	if in, ok := fa.X.(*ssa.FieldAddr); ok {
		return fieldOfAddr(in).Name()
	}
	return ""
}

// ruleFILEENDAGREE (C04): sibling agreement between the routines that take pages from the unused end of
// the data area.  The meta area's end marker doubles as the end of the file (the overflow area is carved
// out beyond it), so whoever advances the data end marker pulls the meta end marker up to it.
func ruleFILEENDAGREE(p *Program, rep *Report) {
	rep.Rule("FILE-END-AGREE", 1, "the routines that advance the data area's end marker agree on maintaining 'meta end marker ≥ data end marker': after the advance, on every path, the meta end marker is raised to the data end marker (possibly under the test meta < data). If some do and one does not, overflow pages are later carved out at a stale meta end marker, inside pages already handed out")
	v := newAllocVocab(p)
	isMarkerLoadOf := func(x ssa.Value, area string) bool {
		u, ok := stripConv(x).(*ssa.UnOp)
		return ok && u.Op == token.MUL && areaOfMarkerAddr(u.X, v.fEndMarker) == area
	}
	// raise: store meta.endMarker = load data.endMarker
	isRaise := func(ins ssa.Instruction) bool {
		st, ok := ins.(*ssa.Store)
		return ok && areaOfMarkerAddr(st.Addr, v.fEndMarker) == "meta" && isMarkerLoadOf(st.Val, "data")
	}
	raises := map[*ssa.Function]bool{}
	for _, fn := range p.SrcFuncs() {
		for _, b := range fn.Blocks {
			for _, ins := range b.Instrs {
				if isRaise(ins) {
					raises[fn] = true
				}
			}
		}
	}
	type site struct {
		fn  *ssa.Function
		adv ssa.Instruction
		ok  bool
	}
	var sites []site
	for _, fn := range p.SrcFuncs() {
		if fnPkgPath(fn) != modPath {
			continue
		}
		var pd map[*ssa.BasicBlock]map[*ssa.BasicBlock]bool
		for _, b := range fn.Blocks {
			for i, ins := range b.Instrs {
				c, ok := ins.(ssa.CallInstruction)
				if !ok || c.Common().StaticCallee() != v.allocFromArea || len(c.Common().Args) < 2 || areaOfMarkerAddr(c.Common().Args[1], v.fEndMarker) != "data" {
					continue
				}
				if pd == nil {
					pd = postDominators(fn)
				}
				after := func(blk *ssa.BasicBlock, idx int) bool { // position is executed on every path after the advance
					return (blk == b && idx > i) || (blk != b && pd[b][blk])
				}
				good := false
				for _, b2 := range fn.Blocks {
					for j, in2 := range b2.Instrs {
						cand := isRaise(in2)
						if cand {
							// the value stored must be the data end marker as it is AFTER the advance: the load
							// feeding the store has to be dominated by the advance (a copy taken before is stale)
							if ld, isLd := stripConv(in2.(*ssa.Store).Val).(*ssa.UnOp); isLd {
								lb := ld.Block()
								if !((lb == b && instrIndex(lb, ld) > i) || (lb != b && b.Dominates(lb))) {
									cand = false
								}
							}
						}
						if c2, ok := in2.(ssa.CallInstruction); ok && !cand {
							if sc := c2.Common().StaticCallee(); sc != nil && raises[sc] {
								cand = true
							}
						}
						if !cand {
							continue
						}
						if after(b2, j) {
							good = true
							continue
						}
						// guarded raise: the deciding branch compares the two markers and is itself always reached
						if len(b2.Preds) == 1 {
							pr := b2.Preds[0]
							if iff, ok := pr.Instrs[len(pr.Instrs)-1].(*ssa.If); ok {
								if bo, ok := iff.Cond.(*ssa.BinOp); ok &&
									((isMarkerLoadOf(bo.X, "meta") && isMarkerLoadOf(bo.Y, "data")) || (isMarkerLoadOf(bo.X, "data") && isMarkerLoadOf(bo.Y, "meta"))) &&
									after(pr, len(pr.Instrs)-1) {
									good = true
								}
							}
						}
					}
				}
				sites = append(sites, site{fn, ins, good})
			}
		}
	}
	anyGood := false
	for _, s := range sites {
		anyGood = anyGood || s.ok
	}
	for _, s := range sites {
		rep.Analysed(funcName(s.fn))
		key := funcName(s.fn) + "|data-end-advance"
		switch {
		case s.ok:
			rep.OK("FILE-END-AGREE", key, p.InstrPos(s.adv), "meta end marker raised after the advance")
		case anyGood:
			rep.Bad("FILE-END-AGREE", key, p.InstrPos(s.adv), "this routine advances the data end marker without raising the meta end marker to it, while its sibling(s) do: the meta end marker (= end of file for the overflow area) stays behind, and a later overflow allocation hands out pages in [meta end, data end) that are already in use")
		default:
			rep.OK("FILE-END-AGREE", key, p.InstrPos(s.adv), "no routine maintains the relation here (siblings agree)")
		}
	}
	if len(sites) == 0 {
		rep.Unknown("FILE-END-AGREE", "anchor", "", "no advance of the data end marker through allocFromArea found (anchor lost)")
	}
}

// isLenOfParam: v is len(x) where x is the given parameter (possibly re-sliced).
func isLenOfParam(v ssa.Value, par *ssa.Parameter) bool {
	c, ok := stripConv(v).(*ssa.Call)
	if !ok {
		return false
	}
	b, ok := c.Common().Value.(*ssa.Builtin)
	if !ok || b.Name() != "len" || len(c.Common().Args) != 1 {
		return false
	}
	x := c.Common().Args[0]
	for {
		if sl, ok := x.(*ssa.Slice); ok && sl.Low == nil {
			x = sl.X
			continue
		}
		break
	}
	return x == ssa.Value(par)
}

// proveLELen: v ≤ len(par) on every path, using φ-edge facts (the `if l < max { max = l }` idiom) and min().
func proveLELen(v ssa.Value, par *ssa.Parameter, depth int) bool {
	if depth > 6 {
		return false
	}
	v = stripConv(v)
	if isLenOfParam(v, par) {
		return true
	}
	switch x := v.(type) {
	case *ssa.Call:
		if b, ok := x.Common().Value.(*ssa.Builtin); ok && b.Name() == "min" {
			for _, a := range x.Common().Args {
				if proveLELen(a, par, depth+1) {
					return true
				}
			}
		}
	case *ssa.Phi:
		for i, e := range x.Edges {
			if proveLELen(e, par, depth+1) {
				continue
			}
			facts := edgeFacts(x.Block().Preds[i], x.Block(), 0, map[ssa.Value]bool{})
			// also what dominates the predecessor
			facts = dnfAnd(facts, blockFacts(x.Block().Preds[i]))
			ok := len(facts) > 0 && facts.every(func(cj conj) bool {
				return cj.has(func(a atom) bool {
					op, l, r, isCmp := cmpAtom(a)
					if !isCmp {
						return false
					}
					switch op {
					case token.LEQ, token.LSS: // e <= len / e < len
						return stripConv(l) == stripConv(e) && isLenOfParam(r, par)
					case token.GEQ, token.GTR: // len >= e
						return stripConv(r) == stripConv(e) && isLenOfParam(l, par)
					}
					return false
				})
			})
			if !ok {
				return false
			}
		}
		return true
	}
	return false
}

// ruleSYNCCOVERSBATCH (C01): the writer decides "all writes issued before this fsync request fit into the
// batch I am about to execute" by comparing their number with a bound; the batch really executed is cut to
// the batch buffer, so the bound must not exceed the buffer length.
func ruleSYNCCOVERSBATCH(p *Program, rep *Report) {
	rep.Rule("SYNC-COVERS-BATCH", 1, "in writer.nextCommand the number of writes still outstanding before a requested fsync is compared with a bound that is provably ≤ len(buf), the capacity of the batch that is executed before the fsync: with a larger bound the fsync is issued after only part of the transaction's page writes, the header barrier is consumed by left-over data pages and the header itself is written without any fsync")
	fn := p.Method("txfile", "writer", "nextCommand")
	count := p.FieldVar("txfile", "syncMsg", "count")
	published := p.FieldVar("txfile", "writer", "published")
	if len(fn.Params) < 2 {
		rep.Unknown("SYNC-COVERS-BATCH", "anchor", p.Pos(fn.Pos()), "writer.nextCommand has no batch buffer parameter")
		return
	}
	var buf *ssa.Parameter
	for _, par := range fn.Params {
		if _, ok := par.Type().Underlying().(*types.Slice); ok {
			buf = par
		}
	}
	if buf == nil {
		rep.Unknown("SYNC-COVERS-BATCH", "anchor", p.Pos(fn.Pos()), "writer.nextCommand has no slice parameter (batch buffer)")
		return
	}
	rep.Analysed(funcName(fn))
	isOutstanding := func(v ssa.Value) bool {
		bo, ok := stripConv(v).(*ssa.BinOp)
		if !ok || bo.Op != token.SUB {
			return false
		}
		fromCount := derivesFrom(bo.X, func(b ssa.Value) bool { return loadedField(b) == count }, 0, map[ssa.Value]bool{})
		return fromCount && loadedField(bo.Y) == published
	}
	n := 0
	reach := staticReach(p, fn)
	// prove: bound ≤ len(buf); a bound that is a parameter of a helper is proved at every call of that helper
	var prove func(bound ssa.Value, in *ssa.Function, depth int) bool
	prove = func(bound ssa.Value, in *ssa.Function, depth int) bool {
		if depth > 3 {
			return false
		}
		if par, ok := stripConv(bound).(*ssa.Parameter); ok && in != fn {
			pi := paramIndex(in, par)
			sites := 0
			for _, site := range p.callIndex().sites[in] {
				if !reach[site.Parent()] {
					continue
				}
				sites++
				if pi < 0 || pi >= len(site.Common().Args) || !prove(site.Common().Args[pi], site.Parent(), depth+1) {
					return false
				}
			}
			return sites > 0
		}
		if in != fn {
			return false
		}
		return proveLELen(bound, buf, 0)
	}
	for _, f2 := range sortedFns(reach) {
		if fnPkgPath(f2) != modPath {
			continue
		}
		for _, b := range f2.Blocks {
			for _, ins := range b.Instrs {
				bo, ok := ins.(*ssa.BinOp)
				if !ok {
					continue
				}
				var bound ssa.Value
				switch bo.Op {
				case token.LEQ, token.LSS, token.GEQ, token.GTR:
					// either orientation / polarity of the decision (`outstanding <= max` or `outstanding > max`)
					if isOutstanding(bo.X) {
						bound = bo.Y
					} else if isOutstanding(bo.Y) {
						bound = bo.X
					}
				}
				if bound == nil {
					continue
				}
				n++
				rep.Analysed(funcName(f2))
				key := "writer.nextCommand|fsync-decision"
				if prove(bound, f2, 0) {
					rep.OK("SYNC-COVERS-BATCH", key, p.InstrPos(ins), "bound ≤ len(buf) on every path")
				} else {
					rep.Bad("SYNC-COVERS-BATCH", key, p.InstrPos(ins), "the fsync is taken when the outstanding writes are ≤ a bound that is not limited to len(buf): with more queued writes than the batch buffer holds the fsync runs after the first len(buf) writes only — later page writes and the header of the same commit are not covered by the barrier they were scheduled before")
				}
			}
		}
	}
	if n == 0 {
		rep.Unknown("SYNC-COVERS-BATCH", "anchor", p.Pos(fn.Pos()), "no comparison of the outstanding write count (syncMsg.count - writer.published) found (anchor lost)")
	}
}
