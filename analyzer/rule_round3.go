package main

// Rules added after the third round: MAXSIZE-DECISION (C14).

import (
	"go/token"

	"golang.org/x/tools/go/ssa"
)

// mayCallees: the repository functions a call instruction can invoke, as far as the value called is a
// function constant, a φ of function constants, or a static callee.
func mayCallees(c ssa.CallInstruction) []*ssa.Function {
	if sc := c.Common().StaticCallee(); sc != nil {
		return []*ssa.Function{sc}
	}
	var out []*ssa.Function
	seen := map[ssa.Value]bool{}
	var walk func(v ssa.Value)
	walk = func(v ssa.Value) {
		if v == nil || seen[v] {
			return
		}
		seen[v] = true
		switch x := v.(type) {
		case *ssa.Function:
			out = append(out, x)
		case *ssa.Phi:
			for _, e := range x.Edges {
				walk(e)
			}
		case *ssa.MakeClosure:
			walk(x.Fn)
		case *ssa.ChangeType:
			walk(x.X)
		}
	}
	if !c.Common().IsInvoke() {
		walk(c.Common().Value)
	}
	return out
}

// ruleMAXSIZEDECISION: whether the requested maximum size is stored in the file is decided by comparing
// it with the size stored in the file header. D15: the comparison used a local that had already been
// replaced by the requested size when the file was unbounded, so a limit on an unbounded file was
// applied in memory and never stored.
func ruleMAXSIZEDECISION(p *Program, rep *Report) {
	rep.Rule("MAXSIZE-DECISION", 1, "the open-time decision to store a new maximum size (the guard of the call that reaches initTxMaxSize) compares Options.MaxSize only with the value read from the header (metaPage.maxSize), never with a value that can itself be Options.MaxSize: otherwise the limit is applied to this instance only and a later plain open reports the old one")
	optMax := p.FieldVar("txfile", "Options", "MaxSize")
	meta := p.Named("txfile", "metaPage")
	hdrMax := p.FieldVar("txfile", "metaPage", "maxSize")
	target := p.Func("txfile", "initTxMaxSize")
	// functions from which the persisting transaction is reachable
	reach := map[*ssa.Function]bool{}
	for _, fn := range p.SrcFuncs() {
		if fnPkgPath(fn) == modPath && staticReach(p, fn)[target] {
			reach[fn] = true
		}
	}
	fromOpts := func(v ssa.Value) bool {
		return derivesFrom(v, func(b ssa.Value) bool { return loadedField(b) == optMax }, 0, map[ssa.Value]bool{})
	}
	fromHdr := func(v ssa.Value) bool {
		return derivesFrom(v, func(b ssa.Value) bool { return fieldGetOf(b, meta) == hdrMax }, 0, map[ssa.Value]bool{})
	}
	n := 0
	for _, fn := range p.SrcFuncs() {
		if fnPkgPath(fn) != modPath || reach[fn] && fn == target {
			continue
		}
		for _, b := range fn.Blocks {
			for _, ins := range b.Instrs {
				c, ok := ins.(ssa.CallInstruction)
				if !ok {
					continue
				}
				hit := false
				for _, g := range mayCallees(c) {
					if reach[g] || g == target {
						hit = true
					}
				}
				if !hit {
					continue
				}
				// comparisons of the requested size in the guard context of the call
				seen := map[ssa.Value]bool{}
				for _, cj := range p.ctxFacts(b) {
					for _, a := range cj {
						op, x, y, ok := cmpAtom(a)
						if !ok || seen[a.v] {
							continue
						}
						var other ssa.Value
						switch {
						case loadedField(x) == optMax:
							other = y
						case loadedField(y) == optMax:
							other = x
						default:
							continue
						}
						if _, isConst := stripConv(other).(*ssa.Const); isConst {
							continue
						}
						seen[a.v] = true
						n++
						rep.Analysed(funcName(fn))
						key := funcName(fn) + "|update-decision|" + cmpClass(op)
						pos := p.InstrPos(a.v.(ssa.Instruction))
						switch {
						case fromOpts(other):
							rep.Bad("MAXSIZE-DECISION", key, pos, "the requested maximum size is compared with a value that can be the requested size itself (a local already replaced by Options.MaxSize): for a so far unbounded file the comparison is always 'equal', the new limit is used by this instance but never stored in the header")
						case fromHdr(other):
							rep.OK("MAXSIZE-DECISION", key, pos, "requested size compared with the size stored in the header")
						default:
							rep.OK("MAXSIZE-DECISION", key, pos, "requested size compared with a value not derived from the request")
						}
					}
				}
			}
		}
	}
	if n == 0 {
		rep.OK("MAXSIZE-DECISION", "unconditional", "", "no call reaching initTxMaxSize is guarded by a comparison of Options.MaxSize: nothing to decide")
	}
}

func cmpClass(op token.Token) string {
	switch op {
	case token.EQL, token.NEQ:
		return "equality"
	}
	return "order"
}
