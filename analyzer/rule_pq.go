package main

// Queue rules (DESIGN §3 C06, C12, C13, C17): TX-PAIRING, PQTX, CALLBACK-AFTER-COMMIT, FAILED-FLUSH-UNASSIGNS,
// KEEPWRITEPAGE, FREE-ALL-CONSUMED, CLEANUP-MAY-OVERFLOW.

import (
	"fmt"
	"go/token"
	"go/types"
	"sort"
	"strings"

	"golang.org/x/tools/go/ssa"
)

// ---------------------------------------------------------------- TX-PAIRING

func isDelegateBegin(c ssa.CallInstruction) bool {
	cc := c.Common()
	return cc.IsInvoke() && isNamed(cc.Value.Type(), modPath+"/pq", "Delegate") && strings.HasPrefix(cc.Method.Name(), "Begin")
}

func returnsTx(fn *ssa.Function) bool {
	res := fn.Signature.Results()
	for i := 0; i < res.Len(); i++ {
		if isNamed(res.At(i).Type(), modPath, "Tx") {
			return true
		}
	}
	return false
}

func ruleTXPAIRING(p *Program, rep *Report) {
	rep.Rule("TX-PAIRING", 8, "every transaction package pq obtains from its Delegate (BeginRead/BeginWrite/BeginCleanup) or from File.Begin is finished (Close/Commit/Rollback) on every exit of the function that began it, unless the function hands it on (returns it, or stores it in a *txfile.Tx field whose owner closes it); a leaked transaction is a leaked file lock")
	voc := newLocksVocab(p)
	fileBegins := map[*ssa.Function]bool{}
	for _, m := range []string{"Begin", "BeginReadonly", "BeginWith"} {
		fileBegins[p.Method("txfile", "File", m)] = true
	}
	var roots []*ssa.Function
	for _, fn := range p.SrcFuncs() {
		if fnPkgPath(fn) != modPath+"/pq" || fn.Parent() != nil {
			continue
		}
		begins := false
		for _, b := range fn.Blocks {
			for _, ins := range b.Instrs {
				if c, ok := ins.(ssa.CallInstruction); ok {
					if isDelegateBegin(c) || fileBegins[c.Common().StaticCallee()] {
						begins = true
					}
				}
			}
		}
		// implementations of the Delegate interface hand the transaction to their caller
		if begins && !returnsTx(fn) {
			roots = append(roots, fn)
		} else if begins {
			rep.OK("TX-PAIRING", funcName(fn)+"|hands-on", p.Pos(fn.Pos()), "returns the transaction to its caller (ownership transfer)")
		}
	}
	// callers of tx-returning pq helpers are roots too
	for _, fn := range p.SrcFuncs() {
		if fnPkgPath(fn) != modPath+"/pq" || fn.Parent() != nil {
			continue
		}
		for _, b := range fn.Blocks {
			for _, ins := range b.Instrs {
				if c, ok := ins.(ssa.CallInstruction); ok {
					if sc := c.Common().StaticCallee(); sc != nil && fnPkgPath(sc) == modPath+"/pq" && returnsTx(sc) && !returnsTx(fn) {
						dup := false
						for _, r := range roots {
							if r == fn {
								dup = true
							}
						}
						if !dup {
							roots = append(roots, fn)
						}
					}
				}
			}
		}
	}
	sort.Slice(roots, func(i, j int) bool { return roots[i].String() < roots[j].String() })
	for _, fn := range roots {
		if debugRoot != "" && !strings.Contains(funcName(fn), debugRoot) {
			continue
		}
		pl := newLocksPlugin(voc, "pq")
		pl.pqLevel = true
		pl.fileBegins = fileBegins
		in := newInterp(p, pl)
		failed := ""
		var exits []Exit
		func() {
			defer func() {
				if e := recover(); e != nil {
					failed = fmt.Sprintf("%v", e)
				}
			}()
			st := newState(newLockProp())
			var args []Value
			if fn.Signature.Recv() != nil {
				args = recvArgs(in, fn, PtrV{cell: in.singleton(namedOf(fn.Signature.Recv().Type()))})
			} else {
				args = make([]Value, len(fn.Params))
			}
			exits = in.Run(fn, args, st)
			failed = in.failed
		}()
		rep.Analysed(in.enteredNames()...)
		key := funcName(fn)
		pos := p.Pos(fn.Pos())
		if failed != "" {
			rep.Unknown("TX-PAIRING", key, pos, "analysis did not complete: "+failed)
			continue
		}
		if len(exits) == 0 {
			rep.Unknown("TX-PAIRING", key, pos, "no exit reached")
			continue
		}
		var leaks []string
		for _, e := range exits {
			lpz := e.st.prop.(*lockProp)
			for _, t := range lpz.pqtx {
				if e.st.nilF[t.sym] == 2 {
					continue // Begin failed: nothing to close
				}
				if pl.storedTx[t.sym] != "" {
					continue
				}
				leaks = append(leaks, t.site)
			}
		}
		stored := []string{}
		for _, f := range pl.storedTx {
			stored = append(stored, f)
		}
		sort.Strings(stored)
		stored = uniq(stored)
		for _, ar := range in.reports {
			if ar.Kind == "NESTED-TX" {
				rep.Bad("NESTED-TX", key+"|"+ar.Fn, ar.Pos, ar.Msg, "via "+strings.Join(ar.Chain, ">"))
			}
		}
		if len(leaks) > 0 {
			sort.Strings(leaks)
			leaks = uniq(leaks)
			rep.Bad("TX-PAIRING", key+"|leak", pos, "a transaction begun in "+key+" is not finished on every exit (begun at "+strings.Join(leaks, "; ")+"): the file lock it holds is never released and the other queue role blocks forever")
			continue
		}
		if len(stored) > 0 {
			// the owner must close the stored transaction somewhere
			allClosed := true
			for _, f := range stored {
				if !fieldTxClosed(p, f) {
					allClosed = false
					rep.Bad("TX-PAIRING", key+"|stored-never-closed|"+f, pos, "transaction stored in "+f+" but no function closes a transaction loaded from that field")
				}
			}
			if allClosed {
				rep.OK("TX-PAIRING", key, pos, "transaction handed to field "+strings.Join(stored, ",")+", whose owner closes it")
			}
			continue
		}
		rep.OK("TX-PAIRING", key, pos, fmt.Sprintf("%d exit class(es), every begun transaction finished", len(exits)))
	}
	ruleNESTEDTX(p, rep, voc, fileBegins)
}

// ruleNESTEDTX: while a Reader holds its transaction (between Begin and Done), none of its methods may
// begin another one; likewise no queue function begins a transaction while it still holds one.
func ruleNESTEDTX(p *Program, rep *Report, voc *locksVocab, fileBegins map[*ssa.Function]bool) {
	rep.Rule("NESTED-TX", 3, "no queue function begins a transaction while its role already holds an open one (Reader methods between Begin and Done in particular): a nested read transaction deadlocks with a commit that is pending on the outer transaction")
	for _, fn := range methodsOf(p, "pq", "Reader", true) {
		if nameIn(fn.Name(), "Begin", "Done") {
			continue
		}
		pl := newLocksPlugin(voc, "pq")
		pl.pqLevel = true
		pl.fileBegins = fileBegins
		in := newInterp(p, pl)
		failed := ""
		func() {
			defer func() {
				if e := recover(); e != nil {
					failed = fmt.Sprintf("%v", e)
				}
			}()
			prop := newLockProp()
			prop.n["pqtx-owned"] = 1
			st := newState(prop)
			in.applyScenario(st, scenario{consts: map[string]Value{"pq.Reader.active": constBool(true)}})
			in.Run(fn, recvArgs(in, fn, PtrV{cell: in.singleton(p.Named("pq", "Reader"))}), st)
			failed = in.failed
		}()
		rep.Analysed(in.enteredNames()...)
		key := "Reader." + fn.Name() + "[tx open]"
		if failed != "" {
			rep.Unknown("NESTED-TX", key, p.Pos(fn.Pos()), "analysis did not complete: "+failed)
			continue
		}
		bad := false
		for _, ar := range in.reports {
			if ar.Kind == "NESTED-TX" {
				bad = true
				rep.Bad("NESTED-TX", key+"|"+ar.Fn, ar.Pos, ar.Msg, "via "+strings.Join(ar.Chain, ">"))
			}
		}
		if !bad {
			rep.OK("NESTED-TX", key, p.Pos(fn.Pos()), "no transaction begun while the reader's transaction is open")
		}
	}
}

// fieldTxClosed: some pq function calls Close/Commit/Rollback on a load of the named field ("Type.field").
func fieldTxClosed(p *Program, field string) bool {
	for _, fn := range p.SrcFuncs() {
		if fnPkgPath(fn) != modPath+"/pq" {
			continue
		}
		for _, b := range fn.Blocks {
			for _, ins := range b.Instrs {
				c, ok := ins.(ssa.CallInstruction)
				if !ok {
					continue
				}
				sc := c.Common().StaticCallee()
				if sc == nil || fnPkgPath(sc) != modPath || !nameIn(sc.Name(), "Close", "Commit", "Rollback") || len(c.Common().Args) == 0 {
					continue
				}
				if f := loadedField(c.Common().Args[0]); f != nil {
					if n := namedOfFieldOwner(p, f); n+"."+f.Name() == field {
						return true
					}
				}
			}
		}
	}
	return false
}

func namedOfFieldOwner(p *Program, f *types.Var) string {
	scope := p.PQ.Pkg.Scope()
	for _, name := range scope.Names() {
		tn, ok := scope.Lookup(name).(*types.TypeName)
		if !ok {
			continue
		}
		st, ok := tn.Type().Underlying().(*types.Struct)
		if !ok {
			continue
		}
		for i := 0; i < st.NumFields(); i++ {
			if st.Field(i) == f {
				return name
			}
		}
	}
	return ""
}

// ---------------------------------------------------------------- PQTX

type pqtxProp struct {
	state     string // noTx | open | committing | closed
	begins    int
	commits   int
	commitSym int  // Commit() result
	closed    bool // Close called
	allocSym  int  // allocatePages error symbol (0: not called)
	unassign  bool
	advanced  bool
	beginSym  int // error symbol of the Begin call
}

func (p *pqtxProp) Key() string {
	return fmt.Sprintf("%s/%d/%d/%d/%v/%d/%v/%v/%d", p.state, p.begins, p.commits, p.commitSym, p.closed, p.allocSym, p.unassign, p.advanced, p.beginSym)
}
func (p *pqtxProp) Clone() PropState { c := *p; return &c }

type pqtxVocab struct {
	txCommit, txClose, txRollback *ssa.Function
	mutators                      map[*ssa.Function]string
	advanceFns                    map[*ssa.Function]string
	advanceFields                 map[*types.Var]string
	cbFields                      map[*types.Var]string
	allocatePages, unassignPages  *ssa.Function
}

func newPqtxVocab(p *Program) *pqtxVocab {
	v := &pqtxVocab{
		txCommit:      p.Method("txfile", "Tx", "Commit"),
		txClose:       p.Method("txfile", "Tx", "Close"),
		txRollback:    p.Method("txfile", "Tx", "Rollback"),
		mutators:      map[*ssa.Function]string{},
		advanceFns:    map[*ssa.Function]string{},
		advanceFields: map[*types.Var]string{},
		cbFields:      map[*types.Var]string{},
		allocatePages: p.Func("pq", "allocatePages"),
		unassignPages: p.Func("pq", "unassignPages"),
	}
	for _, m := range []string{"Alloc", "AllocN"} {
		v.mutators[p.Method("txfile", "Tx", m)] = "Tx." + m
	}
	for _, m := range []string{"SetBytes", "Flush", "Free", "MarkDirty", "Load"} {
		v.mutators[p.Method("txfile", "Page", m)] = "Page." + m
	}
	v.advanceFns[p.Method("pq", "buffer", "Reset")] = "buffer.Reset"
	v.advanceFns[p.Method("pq", "page", "UnmarkDirty")] = "page.UnmarkDirty"
	for _, f := range []string{"totalEventCount", "totalAllocPages", "activeEventCount", "activeEventBytes"} {
		v.advanceFields[p.FieldVar("pq", "writeState", f)] = "Writer.state." + f
	}
	for _, f := range []string{"totalEventCount", "totalFreedPages"} {
		v.advanceFields[p.FieldVar("pq", "acker", f)] = "acker." + f
	}
	v.cbFields[p.FieldVar("pq", "Writer", "flushCB")] = "Flushed callback"
	v.cbFields[p.FieldVar("pq", "acker", "ackCB")] = "ACKed callback"
	return v
}

type pqtxPlugin struct {
	basePlugin
	voc    *pqtxVocab
	events map[string]int
}

func pq(fs *FState) *pqtxProp { return fs.st.prop.(*pqtxProp) }

func (o *pqtxPlugin) committed(fs *FState) bool {
	p := pq(fs)
	return p.commits > 0 && p.commitSym != 0 && fs.st.nilF[p.commitSym] == 1
}

func (o *pqtxPlugin) advance(in *Interp, fs *FState, site ssa.Instruction, what string) {
	p := pq(fs)
	o.events["advance"]++
	switch {
	case p.state == "noTx" && p.begins == 0:
		// nothing-to-do exit or a caller-level advance before any transaction: only legal if no tx will follow; checked at exit
		p.advanced = true
	case o.committed(fs):
		p.advanced = true
	default:
		in.report("PQTX", site, "in-memory advance ("+what+") before the transaction is known to be committed (Commit() == nil): after a failed or not yet executed commit the in-memory queue state runs ahead of the file")
		p.advanced = true
	}
}

func (o *pqtxPlugin) OnCall(in *Interp, fs *FState, site ssa.Instruction, callee *ssa.Function, fnv Value, args []Value) (bool, Value) {
	p := pq(fs)
	v := o.voc
	if callee == nil {
		c, ok := site.(ssa.CallInstruction)
		if !ok {
			return false, nil
		}
		if isDelegateBegin(c) && c.Common().Method.Name() == "BeginRead" {
			// read transactions (ACK plan, counters) are not part of the atomic write; TX-PAIRING covers them
			errSym := in.symAt(in.instrTag())
			return true, TupleV{[]Value{in.unknown(c.Common().Signature().Results().At(0).Type()), Top{errSym}}}
		}
		if isDelegateBegin(c) {
			o.events["begin"]++
			errSym := in.symAt(in.instrTag())
			p.beginSym = errSym
			if p.state == "open" {
				in.report("PQTX", site, "a second transaction is begun while the first one is still open (flush/ACK must be one atomic transaction)")
			}
			if p.commits > 0 {
				in.report("PQTX", site, "a second transaction is begun after the commit: the flush/ACK is split over two transactions and is no longer atomic")
			}
			p.begins++
			p.state = "open"
			txv := in.unknown(c.Common().Signature().Results().At(0).Type())
			return true, TupleV{[]Value{txv, Top{errSym}}}
		}
		// callback through a function-typed field
		if !c.Common().IsInvoke() {
			if f := loadedField(c.Common().Value); f != nil {
				if what, ok := v.cbFields[f]; ok {
					o.events["callback"]++
					o.advance(in, fs, site, what)
					return true, Top{}
				}
			}
		}
		return false, nil
	}
	switch callee {
	case v.txCommit:
		o.events["commit"]++
		if p.state != "open" {
			in.report("PQTX", site, "Commit without an open transaction")
		}
		p.commits++
		if p.commits > 1 {
			in.report("PQTX", site, "Commit called twice on one flush/ACK path")
		}
		r := in.top()
		p.commitSym = r.(Top).sym
		p.state = "committing"
		return true, r
	case v.txClose, v.txRollback:
		o.events["close"]++
		p.closed = true
		if p.state == "open" {
			p.state = "closed"
		}
		return true, in.top()
	case v.unassignPages:
		p.unassign = true
		return false, nil
	}
	if what, ok := v.mutators[callee]; ok {
		o.events["mutation"]++
		if p.state != "open" {
			in.report("PQTX", site, "file mutation ("+what+") outside the open flush/ACK transaction (state "+p.state+")")
		}
		return true, in.unknown(callee.Signature.Results())
	}
	if what, ok := v.advanceFns[callee]; ok {
		o.advance(in, fs, site, what)
		return false, nil
	}
	if callee == v.allocatePages {
		// interpret it, but remember its error symbol: done in OnReturn-less fashion through a wrapper below
		return false, nil
	}
	if fnPkgPath(callee) == modPath {
		// any other txfile API is opaque at queue level
		return true, in.unknown(callee.Signature.Results())
	}
	return false, nil
}

func (o *pqtxPlugin) OnStore(in *Interp, fs *FState, instr ssa.Instruction, c *Cell, val Value) {
	if what, ok := o.voc.advanceFields[c.fvar]; ok && c.lazy {
		o.advance(in, fs, instr, what+" updated")
	}
}

func rulePQTX(p *Program, rep *Report) {
	rep.Rule("PQTX", 2, "a flush and an ACK are each exactly one write transaction: file mutations only inside it, one Commit, and every in-memory advance (buffer reset, dirty flags, counters, Flushed/ACKed callbacks) only after Commit() == nil; error exits have not advanced and leave the transaction closed")
	rep.Rule("FAILED-FLUSH-UNASSIGNS", 1, "every error exit of the flush after page ids were assigned has un-assigned them (the buffer is kept for a retry)")
	voc := newPqtxVocab(p)
	type root struct {
		name string
		fn   *ssa.Function
		recv string
	}
	roots := []root{
		{"Writer.flushBuffer", p.Method("pq", "Writer", "flushBuffer"), "Writer"},
		{"acker.handle", p.Method("pq", "acker", "handle"), "acker"},
	}
	for _, r := range roots {
		pl := &pqtxPlugin{voc: voc, events: map[string]int{}}
		in := newInterp(p, pl)
		failed := ""
		var exits []Exit
		func() {
			defer func() {
				if e := recover(); e != nil {
					failed = fmt.Sprintf("%v", e)
				}
			}()
			st := newState(&pqtxProp{state: "noTx"})
			sc := scenario{consts: map[string]Value{"pq." + r.recv + ".active": constBool(true)}}
			in.applyScenario(st, sc)
			args := recvArgs(in, r.fn, PtrV{cell: in.singleton(p.Named("pq", r.recv))})
			exits = in.Run(r.fn, args, st)
			failed = in.failed
		}()
		rep.Analysed(in.enteredNames()...)
		pos := p.Pos(r.fn.Pos())
		if failed != "" {
			rep.Unknown("PQTX", r.name, pos, "analysis did not complete: "+failed)
			continue
		}
		bad := false
		for _, ar := range in.reports {
			if ar.Kind == "PQTX" {
				bad = true
				rep.Bad("PQTX", r.name+"|"+ar.Fn+"|"+ar.Msg, ar.Pos, ar.Msg, "root "+r.name, "via "+strings.Join(ar.Chain, ">"))
			}
		}
		if len(exits) == 0 {
			rep.Unknown("PQTX", r.name, pos, "no exit reached")
			continue
		}
		unassignBad := false
		sawAllocErrExit := false
		for _, e := range exits {
			pp := e.st.prop.(*pqtxProp)
			en := errOfExit(r.fn, e)
			committed := pp.commits > 0 && pp.commitSym != 0 && e.st.nilF[pp.commitSym] == 1
			if en != 2 { // success return
				if pp.begins > 0 && !committed {
					bad = true
					rep.Bad("PQTX", r.name+"|success-without-commit", pos, r.name+" can return nil although the transaction it began is not known to be committed")
				}
			}
			if en != 1 { // error return
				if pp.advanced && !(pp.begins == 0) && !committed {
					// reported at the event already
				}
				if pp.begins > 0 && pp.state == "open" && !pp.closed && e.st.nilF[pp.beginSym] != 2 {
					bad = true
					rep.Bad("PQTX", r.name+"|error-exit-tx-open", pos, "an error exit of "+r.name+" leaves its transaction open")
				}
				if r.name == "Writer.flushBuffer" && pp.begins > 0 {
					sawAllocErrExit = true
				}
			}
			if pp.begins > 1 {
				bad = true
				rep.Bad("PQTX", r.name+"|two-transactions", pos, r.name+" uses more than one transaction on a path")
			}
		}
		_ = unassignBad
		_ = sawAllocErrExit
		if !bad {
			var ev []string
			for k, v := range pl.events {
				ev = append(ev, fmt.Sprintf("%s=%d", k, v))
			}
			sort.Strings(ev)
			rep.OK("PQTX", r.name, pos, fmt.Sprintf("%d exit class(es); events %s", len(exits), strings.Join(ev, " ")))
		}
	}
	ruleFAILEDFLUSH(p, rep)
}

// ruleFAILEDFLUSH: structural must-pass check inside Writer.doFlush: after allocatePages succeeded, every
// return with a non-nil error passes unassignPages (the flag-guarded deferred cleanup) and not buffer.Reset.
func ruleFAILEDFLUSH(p *Program, rep *Report) {
	doFlush := p.Method("pq", "Writer", "doFlush")
	unassign := p.Func("pq", "unassignPages")
	allocate := p.Func("pq", "allocatePages")
	reset := p.Method("pq", "buffer", "Reset")
	rep.Analysed(funcName(doFlush))
	// engine A with an event plug-in: simplest exact formulation
	pl := &eventPlugin{fns: map[*ssa.Function]string{unassign: "unassign", reset: "reset"}, track: allocate}
	in := newInterp(p, pl)
	st := newState(&eventProp{})
	args := recvArgs(in, doFlush, PtrV{cell: in.singleton(p.Named("pq", "Writer"))})
	var exits []Exit
	failed := ""
	func() {
		defer func() {
			if e := recover(); e != nil {
				failed = fmt.Sprintf("%v", e)
			}
		}()
		exits = in.Run(doFlush, args, st)
		failed = in.failed
	}()
	pos := p.Pos(doFlush.Pos())
	if failed != "" || len(exits) == 0 {
		rep.Unknown("FAILED-FLUSH-UNASSIGNS", "Writer.doFlush", pos, "analysis did not complete: "+failed)
		return
	}
	if pl.seen["track"] == 0 {
		rep.Unknown("FAILED-FLUSH-UNASSIGNS", "Writer.doFlush", pos, "allocatePages is no longer called from doFlush (anchor lost)")
		return
	}
	bad := false
	n := 0
	for _, e := range exits {
		ep := e.st.prop.(*eventProp)
		en := errOfExit(doFlush, e)
		if ep.trackSym == 0 || e.st.nilF[ep.trackSym] != 1 {
			continue // allocatePages not called or failed: nothing was assigned
		}
		n++
		if en != 1 {
			if !ep.has("unassign") {
				bad = true
				rep.Bad("FAILED-FLUSH-UNASSIGNS", "Writer.doFlush|error-exit-keeps-ids", pos, "an error exit of doFlush after allocatePages succeeded does not run unassignPages: the buffered pages keep the ids of pages that were rolled back, a retry writes to pages it does not own")
			}
			if ep.has("reset") {
				bad = true
				rep.Bad("FAILED-FLUSH-UNASSIGNS", "Writer.doFlush|error-exit-resets-buffer", pos, "an error exit of doFlush resets the write buffer: the buffered events are lost")
			}
		} else {
			if ep.has("unassign") {
				bad = true
				rep.Bad("FAILED-FLUSH-UNASSIGNS", "Writer.doFlush|success-unassigns", pos, "the success exit of doFlush runs unassignPages on the committed pages")
			}
		}
	}
	if !bad {
		rep.OK("FAILED-FLUSH-UNASSIGNS", "Writer.doFlush", pos, fmt.Sprintf("%d exit class(es) after a successful allocatePages checked", n))
	}
}

// generic event plug-in: records which of a set of functions were called on the path; optionally tracks
// the error symbol returned by one function.
type eventProp struct {
	ev       []string
	trackSym int
}

func (e *eventProp) Key() string      { return strings.Join(e.ev, ",") + fmt.Sprintf("/%d", e.trackSym) }
func (e *eventProp) Clone() PropState { return &eventProp{ev: append([]string(nil), e.ev...), trackSym: e.trackSym} }
func (e *eventProp) has(s string) bool {
	for _, x := range e.ev {
		if x == s {
			return true
		}
	}
	return false
}
func (e *eventProp) add(s string) {
	if !e.has(s) {
		e.ev = append(e.ev, s)
		sort.Strings(e.ev)
	}
}

type eventPlugin struct {
	basePlugin
	fns   map[*ssa.Function]string
	track *ssa.Function
	seen  map[string]int
}

func (o *eventPlugin) OnCall(in *Interp, fs *FState, site ssa.Instruction, callee *ssa.Function, fnv Value, args []Value) (bool, Value) {
	if o.seen == nil {
		o.seen = map[string]int{}
	}
	if callee == nil {
		return false, nil
	}
	ep := fs.st.prop.(*eventProp)
	if name, ok := o.fns[callee]; ok {
		o.seen[name]++
		ep.add(name)
		return false, nil
	}
	if callee == o.track {
		o.seen["track"]++
		res := callee.Signature.Results()
		errSym := in.symAt(in.instrTag())
		ep.trackSym = errSym
		tv := TupleV{make([]Value, res.Len())}
		for i := 0; i < res.Len()-1; i++ {
			tv.elems[i] = in.unknown(res.At(i).Type())
		}
		tv.elems[res.Len()-1] = Top{errSym}
		if res.Len() == 1 {
			return true, Top{errSym}
		}
		return true, tv
	}
	if fnPkgPath(callee) == modPath {
		return true, in.unknown(callee.Signature.Results())
	}
	return false, nil
}

// ---------------------------------------------------------------- KEEPWRITEPAGE / FREE-ALL-CONSUMED

func ruleKEEPWRITEPAGE(p *Program, rep *Report) {
	rep.Rule("KEEPWRITEPAGE", 1, "in acker.collectFreePages a page id is only added to the free plan under the false outcome of hdr.next == 0: the last page (the page the writer appends to) is never freed")
	fn := p.Method("pq", "acker", "collectFreePages")
	next := p.FieldVar("pq", "eventPage", "next")
	rep.Analysed(funcName(fn))
	n := 0
	for _, b := range fn.Blocks {
		for _, ins := range b.Instrs {
			c, ok := ins.(*ssa.Call)
			if !ok {
				continue
			}
			bi, ok := c.Common().Value.(*ssa.Builtin)
			if !ok || bi.Name() != "append" {
				continue
			}
			// only appends to a []PageID
			sl, ok := c.Type().Underlying().(*types.Slice)
			if !ok || !isNamed(sl.Elem(), modPath, "PageID") {
				continue
			}
			n++
			good := p.ctxFacts(b).every(func(cj conj) bool {
				return cj.has(func(a atom) bool {
					op, x, y, ok := cmpAtom(a)
					if !ok || op != token.NEQ {
						return false
					}
					isNextGet := func(v ssa.Value) bool {
						call, ok := stripConv(v).(*ssa.Call)
						if !ok || call.Common().StaticCallee() == nil || call.Common().StaticCallee().Name() != "Get" {
							return false
						}
						return recvField(call) == next
					}
					return (isNextGet(x) && isIntConst(y, 0)) || (isNextGet(y) && isIntConst(x, 0))
				})
			})
			key := "acker.collectFreePages|append"
			if good {
				rep.OK("KEEPWRITEPAGE", key, p.InstrPos(ins), "dominated by hdr.next != 0")
			} else {
				rep.Bad("KEEPWRITEPAGE", key, p.InstrPos(ins), "a page id is added to the ACK free plan without a dominating hdr.next != 0 test: the write page (last page of the queue) can be freed while the writer still appends to it")
			}
		}
	}
	if n == 0 {
		rep.Unknown("KEEPWRITEPAGE", "acker.collectFreePages|append", p.Pos(fn.Pos()), "anchor lost: collectFreePages no longer appends page ids")
	}
}

func ruleFREEALLCONSUMED(p *Program, rep *Report) {
	rep.Rule("FREE-ALL-CONSUMED", 2, "acker.cleanup frees, inside the cleanup transaction, exactly the pages of the plan (range over ackState.free calling Page.Free) and decreases the persisted in-use counter by the length of that same slice")
	fn := p.Method("pq", "acker", "cleanup")
	free := p.FieldVar("pq", "ackState", "free")
	inuse := p.FieldVar("pq", "queuePage", "inuse")
	pageFree := p.Method("txfile", "Page", "Free")
	rep.Analysed(funcName(fn))
	// (a) Page.Free called in a loop whose range operand is a load of state.free
	okLoop := false
	// fedByFree: x is a load of ackState.free, or a parameter that every call site feeds with one
	var fedByFree func(g *ssa.Function, x ssa.Value, depth int) bool
	fedByFree = func(g *ssa.Function, x ssa.Value, depth int) bool {
		if loadedField(x) == free {
			return true
		}
		if depth > 2 {
			return false
		}
		if pi := paramIndex(g, x); pi >= 0 {
			sites := p.callIndex().sites[g]
			if len(sites) == 0 {
				return false
			}
			for _, s := range sites {
				if pi >= len(s.Common().Args) || !fedByFree(s.Parent(), s.Common().Args[pi], depth+1) {
					return false
				}
			}
			return true
		}
		return false
	}
	for g := range staticReach(p, fn) {
		if fnPkgPath(g) != modPath+"/pq" {
			continue
		}
		for _, c := range callsIn(g, func(cal *ssa.Function, _ ssa.CallInstruction) bool { return cal == pageFree }) {
			// the freed page comes from tx.Page(id) with id = element of the plan
			blk := c.Block()
			for d := blk; d != nil; d = d.Idom() {
				for _, ins := range d.Instrs {
					if ia, ok := ins.(*ssa.IndexAddr); ok && fedByFree(g, ia.X, 0) {
						okLoop = true
					}
				}
			}
		}
	}
	if okLoop {
		rep.OK("FREE-ALL-CONSUMED", "acker.cleanup|free-loop", p.Pos(fn.Pos()), "Page.Free called for the elements of ackState.free")
	} else {
		rep.Bad("FREE-ALL-CONSUMED", "acker.cleanup|free-loop", p.Pos(fn.Pos()), "acker.cleanup no longer frees the pages of the ACK plan (ackState.free) inside the cleanup transaction: consumed pages are never returned to the file")
	}
	// (b) inuse.Set(inuse.Get() - len(state.free)), in cleanup or a helper below it
	okCount := false
	reach := staticReach(p, fn)
	for g := range reach {
		if fnPkgPath(g) != modPath+"/pq" {
			continue
		}
		for _, b := range g.Blocks {
			for _, ins := range b.Instrs {
				c, ok := ins.(*ssa.Call)
				if !ok || c.Common().StaticCallee() == nil || c.Common().StaticCallee().Name() != "Set" || recvField(c) != inuse {
					continue
				}
				arg := c.Common().Args[len(c.Common().Args)-1]
				if bo, ok := stripConv(arg).(*ssa.BinOp); ok && bo.Op == token.SUB {
					if dataSliceHas(p, bo.Y, nil, free, reach) {
						okCount = true
					}
				}
			}
		}
	}
	if okCount {
		rep.OK("FREE-ALL-CONSUMED", "acker.cleanup|inuse", p.Pos(fn.Pos()), "inuse decreased by len(ackState.free)")
	} else {
		rep.Bad("FREE-ALL-CONSUMED", "acker.cleanup|inuse", p.Pos(fn.Pos()), "the persisted in-use page counter is not decreased by the number of pages freed by the ACK")
	}
}

// ---------------------------------------------------------------- CLEANUP-MAY-OVERFLOW

func ruleCLEANUPMAYOVERFLOW(p *Program, rep *Report) {
	rep.Rule("CLEANUP-MAY-OVERFLOW", 3, "the ACK cleanup transaction is started through Delegate.BeginCleanup, whose implementation enables the overflow area (EnableOverflowArea: true); the writer's transaction (BeginWrite) does not")
	enable := p.FieldVar("txfile", "TxOptions", "EnableOverflowArea")
	check := func(method string, want bool) {
		fn := p.Method("pq", "standaloneDelegate", method)
		rep.Analysed(funcName(fn))
		got := false
		for _, b := range fn.Blocks {
			for _, ins := range b.Instrs {
				if st, ok := ins.(*ssa.Store); ok && addrField(st.Addr) == enable {
					if bv, ok := constBoolOf(st.Val); ok && bv {
						got = true
					} else if !ok {
						got = want // non-constant: undecidable -> treat as mismatch below
						rep.Unknown("CLEANUP-MAY-OVERFLOW", "standaloneDelegate."+method, p.InstrPos(ins), "EnableOverflowArea is not a constant")
						return
					}
				}
			}
		}
		key := "standaloneDelegate." + method
		if got == want {
			rep.OK("CLEANUP-MAY-OVERFLOW", key, p.Pos(fn.Pos()), fmt.Sprintf("EnableOverflowArea = %v", got))
		} else if want {
			rep.Bad("CLEANUP-MAY-OVERFLOW", key, p.Pos(fn.Pos()), "the cleanup transaction does not enable the overflow area: on a full file the ACK cannot allocate the meta pages it needs to free space, the queue can never be drained")
		} else {
			rep.Bad("CLEANUP-MAY-OVERFLOW", key, p.Pos(fn.Pos()), "the writer's transaction enables the overflow area: a bounded file can grow past its maximum size on every flush")
		}
	}
	check("BeginCleanup", true)
	check("BeginWrite", false)
	// who uses which
	uses := func(fn *ssa.Function, m string) bool {
		for f := range staticReach(p, fn) {
			for _, b := range f.Blocks {
				for _, ins := range b.Instrs {
					if c, ok := ins.(ssa.CallInstruction); ok && isDelegateBegin(c) && c.Common().Method.Name() == m {
						return true
					}
				}
			}
		}
		return false
	}
	cleanup := p.Method("pq", "acker", "cleanup")
	doFlush := p.Method("pq", "Writer", "doFlush")
	if uses(cleanup, "BeginCleanup") && !uses(cleanup, "BeginWrite") {
		rep.OK("CLEANUP-MAY-OVERFLOW", "acker.cleanup|uses-BeginCleanup", p.Pos(cleanup.Pos()), "")
	} else {
		rep.Bad("CLEANUP-MAY-OVERFLOW", "acker.cleanup|uses-BeginCleanup", p.Pos(cleanup.Pos()), "acker.cleanup does not start its write transaction through Delegate.BeginCleanup")
	}
	if uses(doFlush, "BeginWrite") && !uses(doFlush, "BeginCleanup") {
		rep.OK("CLEANUP-MAY-OVERFLOW", "Writer.doFlush|uses-BeginWrite", p.Pos(doFlush.Pos()), "")
	} else {
		rep.Bad("CLEANUP-MAY-OVERFLOW", "Writer.doFlush|uses-BeginWrite", p.Pos(doFlush.Pos()), "Writer.doFlush does not start its transaction through Delegate.BeginWrite (overflow area must stay off for writes)")
	}
}

// ---------------------------------------------------------------- POSITION-COHERENT (C06)

type opaqueTxfilePlugin struct{ basePlugin }

func (opaqueTxfilePlugin) OnCall(in *Interp, fs *FState, site ssa.Instruction, callee *ssa.Function, fnv Value, args []Value) (bool, Value) {
	if callee != nil && fnPkgPath(callee) == modPath {
		return true, in.unknown(callee.Signature.Results())
	}
	return false, nil
}

// rulePOSITIONCOHERENT: the new on-disk read position computed by the ACK is one coherent sample of the
// cursor: if its offset is the cursor's current offset, its page is the cursor's current page (the skip
// loop may have advanced the cursor into a later page).
func rulePOSITIONCOHERENT(p *Program, rep *Report) {
	rep.Rule("POSITION-COHERENT", 1, "in acker.findNewStartPositions the persisted read position takes page and offset from the same cursor state: an offset sampled after the skip loop is never combined with a page id sampled before it")
	fn := p.Method("pq", "acker", "findNewStartPositions")
	pos := p.Struct("pq", "position")
	idx := map[string]int{}
	for i := 0; i < pos.NumFields(); i++ {
		idx[pos.Field(i).Name()] = i
	}
	if _, ok := idx["page"]; !ok {
		panic(vocabMiss{"pq.position.page"})
	}
	if _, ok := idx["off"]; !ok {
		panic(vocabMiss{"pq.position.off"})
	}
	in := newInterp(p, opaqueTxfilePlugin{})
	var exits []Exit
	failed := ""
	curCell := in.singleton(p.Named("pq", "cursor"))
	func() {
		defer func() {
			if e := recover(); e != nil {
				failed = fmt.Sprintf("%v", e)
			}
		}()
		st := newState(noProp{})
		args := recvArgs(in, fn, PtrV{cell: in.singleton(p.Named("pq", "acker"))})
		// the cursor parameter: the txCursor singleton, whose cursor field points at the cursor singleton
		for i, par := range fn.Params {
			if isNamed(par.Type(), modPath+"/pq", "txCursor") {
				tc := in.singleton(p.Named("pq", "txCursor"))
				in.storeCell(st, in.fieldCell(tc, "cursor"), PtrV{cell: curCell})
				args[i] = PtrV{cell: tc}
			}
		}
		exits = in.Run(fn, args, st)
		failed = in.failed
	}()
	rep.Analysed(in.enteredNames()...)
	where := p.Pos(fn.Pos())
	if failed != "" || len(exits) == 0 {
		rep.Unknown("POSITION-COHERENT", "acker.findNewStartPositions", where, "analysis did not complete: "+failed)
		return
	}
	bad, n := false, 0
	for _, e := range exits {
		if errOfExit(fn, e) == 2 {
			continue
		}
		tv, ok := e.ret.(TupleV)
		if !ok || len(tv.elems) < 2 {
			continue
		}
		read, ok := tv.elems[1].(StructV)
		if !ok || len(read.fields) <= idx["off"] {
			continue
		}
		n++
		curPage := in.loadCell(e.st, in.fieldCell(curCell, "page"))
		curOff := in.loadCell(e.st, in.fieldCell(curCell, "off"))
		rp, ro := read.fields[idx["page"]], read.fields[idx["off"]]
		if rp == nil || ro == nil {
			continue
		}
		if valueKey(ro) == valueKey(curOff) && symOf(curOff) != 0 && valueKey(rp) != valueKey(curPage) {
			bad = true
		}
	}
	if n == 0 {
		rep.Unknown("POSITION-COHERENT", "acker.findNewStartPositions", where, "no successful exit with a position result found (anchor lost)")
		return
	}
	if bad {
		rep.Bad("POSITION-COHERENT", "acker.findNewStartPositions|read", where, "the new read position combines the cursor's offset after skipping the ACKed events with a page id taken before the skip: when the last ACKed event crosses a page boundary the persisted read pointer names the wrong page, and after a reopen the reader decodes payload bytes as an event header")
	} else {
		rep.OK("POSITION-COHERENT", "acker.findNewStartPositions|read", where, fmt.Sprintf("%d successful exit class(es): page and offset of the read position come from the same cursor state", n))
	}
}
