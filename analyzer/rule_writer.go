package main

// Background writer rules (DESIGN §3 C01.4, C08.5, C03.2): STICKY, RELEASE, STABLE-BATCH.

import (
	"go/constant"
	"go/token"
	"go/types"

	"golang.org/x/tools/go/ssa"
)

// phiWebReaches: starting at v, following φ edges, do we reach target?
func phiWebReaches(v, target ssa.Value, seen map[ssa.Value]bool) bool {
	if v == target {
		return true
	}
	if seen[v] {
		return false
	}
	seen[v] = true
	if phi, ok := v.(*ssa.Phi); ok {
		for _, e := range phi.Edges {
			if phiWebReaches(e, target, seen) {
				return true
			}
		}
	}
	// a local spilled to memory (captured by a defer / closure): its loads see every store to the cell
	if u, ok := v.(*ssa.UnOp); ok && u.Op == token.MUL {
		if a, ok := u.X.(*ssa.Alloc); ok && a.Referrers() != nil {
			for _, r := range *a.Referrers() {
				if st, ok := r.(*ssa.Store); ok && st.Addr == ssa.Value(a) && phiWebReaches(st.Val, target, seen) {
					return true
				}
			}
		}
	}
	return false
}

// phiWeb: all φ nodes connected to v through φ edges (both directions within fn).
func phiWeb(fn *ssa.Function, start ssa.Value) map[*ssa.Phi]bool {
	web := map[*ssa.Phi]bool{}
	inWeb := map[ssa.Value]bool{start: true}
	changed := true
	for changed {
		changed = false
		for _, b := range fn.Blocks {
			for _, ins := range b.Instrs {
				phi, ok := ins.(*ssa.Phi)
				if !ok {
					break
				}
				touch := inWeb[phi]
				for _, e := range phi.Edges {
					if inWeb[e] {
						touch = true
					}
				}
				if !touch {
					continue
				}
				if !web[phi] {
					web[phi] = true
					changed = true
				}
				if !inWeb[phi] {
					inWeb[phi] = true
					changed = true
				}
				for _, e := range phi.Edges {
					if _, isPhi := e.(*ssa.Phi); isPhi && !inWeb[e] {
						inWeb[e] = true
						changed = true
					}
				}
			}
		}
	}
	return web
}

// errorWeb: connected components of error-like values of fn, where a φ is connected to its operands, a
// spilled local to everything stored into it, and a call of a function that takes an error-like
// parameter and returns an error-like result (a helper threading the sticky error through) connects that
// argument with the call's result.
func errorWeb(p *Program, fn *ssa.Function) func(a, b ssa.Value) bool {
	parent := map[ssa.Value]ssa.Value{}
	var find func(v ssa.Value) ssa.Value
	find = func(v ssa.Value) ssa.Value {
		if q, ok := parent[v]; ok && q != v {
			r := find(q)
			parent[v] = r
			return r
		}
		parent[v] = v
		return v
	}
	union := func(a, b ssa.Value) {
		ra, rb := find(a), find(b)
		if ra != rb {
			parent[ra] = rb
		}
	}
	for _, b := range fn.Blocks {
		for _, ins := range b.Instrs {
			switch x := ins.(type) {
			case *ssa.Phi:
				if errorLike(x.Type()) {
					for _, e := range x.Edges {
						if !isNilConst(e) {
							union(x, e)
						}
					}
				}
			case *ssa.Store:
				if a, ok := x.Addr.(*ssa.Alloc); ok && errorLike(x.Val.Type()) && !isNilConst(x.Val) {
					union(a, x.Val)
				}
			case *ssa.UnOp:
				if a, ok := x.X.(*ssa.Alloc); ok && x.Op == token.MUL && errorLike(x.Type()) {
					union(a, x)
				}
			case *ssa.Call:
				sc := x.Common().StaticCallee()
				if sc == nil || !p.InRepo(sc) || !errorLike(x.Type()) {
					continue
				}
				for _, a := range x.Common().Args {
					if errorLike(a.Type()) && !isNilConst(a) {
						union(x, a)
					}
				}
			}
		}
	}
	return func(a, b ssa.Value) bool { return find(a) == find(b) }
}

func ruleSTICKYSSA(p *Program, rep *Report) {
	rep.Rule("STICKY", 2, "every write/sync I/O call of the background writer is dominated by `err == nil` on the sticky writer error that its own result feeds (directly in writer.Run, or in a helper whose error parameter / result carry it); the error is only reset to nil under syncFlags.Test(syncResetErr)")
	run := p.Method("txfile", "writer", "Run")
	writeAt := p.Func("txfile", "writeAt")
	execSync := p.Method("txfile", "writer", "execSync")
	release := p.Method("txfile", "txWriteSync", "Release")
	testFn := p.Method("txfile", "syncFlag", "Test")
	errField := p.FieldVar("txfile", "txWriteSync", "err")
	resetC := p.Tx.Const("syncResetErr")
	if resetC == nil {
		panic(vocabMiss{"txfile.syncResetErr"})
	}
	resetBit, _ := constant.Int64Val(resetC.Value.Value)
	rep.Analysed(funcName(run))

	isIO := func(callee *ssa.Function, c ssa.CallInstruction) bool {
		if callee == writeAt || callee == execSync {
			return true
		}
		if c.Common().IsInvoke() {
			m := c.Common().Method.Name()
			return (m == "WriteAt" || m == "Sync") && isNamed(c.Common().Value.Type(), modPath, "writable")
		}
		return false
	}
	resetGuard := func(facts dnf) bool {
		return facts.every(func(cj conj) bool {
			return cj.has(func(a atom) bool {
				c := callTo(a.v, testFn)
				if c == nil || !a.pol {
					return false
				}
				args := c.Common().Args
				k, ok := stripConv(args[len(args)-1]).(*ssa.Const)
				if !ok || k.Value == nil {
					return false
				}
				n, _ := constant.Int64Val(k.Value)
				return n&resetBit != 0
			})
		})
	}
	// nilGuard: the error value e such that the block is dominated by e == nil
	nilGuards := func(b *ssa.BasicBlock) []ssa.Value {
		var out []ssa.Value
		facts := blockFacts(b)
		if len(facts) == 0 {
			return nil
		}
		// candidates from the first disjunct, kept if present in all
		for _, a := range facts[0] {
			op, x, y, ok := cmpAtom(a)
			if !ok || op != token.EQL {
				continue
			}
			var e ssa.Value
			if isNilConst(y) {
				e = x
			} else if isNilConst(x) {
				e = y
			}
			if e == nil || !errorLike(e.Type()) {
				continue
			}
			inAll := facts.every(func(cj conj) bool {
				return cj.has(func(a2 atom) bool {
					op2, x2, y2, ok2 := cmpAtom(a2)
					return ok2 && op2 == token.EQL && ((x2 == e && isNilConst(y2)) || (y2 == e && isNilConst(x2)))
				})
			})
			if inAll {
				out = append(out, e)
			}
		}
		return out
	}

	type site struct {
		fn   *ssa.Function
		call *ssa.Call
		name string
	}
	var sites []site
	collect := func(fn *ssa.Function) {
		for _, c := range callsIn(fn, isIO) {
			call, ok := c.(*ssa.Call)
			name := "invoke"
			if sc := c.Common().StaticCallee(); sc != nil {
				name = sc.Name()
			} else {
				name = c.Common().Method.Name()
			}
			if !ok {
				rep.Bad("STICKY", funcName(fn)+"|deferred-io|"+name, p.InstrPos(c), "I/O call of the writer is deferred / spawned: it runs whatever the writer's error state is")
				continue
			}
			sites = append(sites, site{fn, call, name})
		}
	}
	collect(run)
	helpers := map[*ssa.Function]bool{}
	for _, c := range callsIn(run, func(cal *ssa.Function, _ ssa.CallInstruction) bool {
		return cal != nil && p.InRepo(cal) && cal != writeAt && cal != execSync && fnPkgPath(cal) == modPath
	}) {
		h := c.Common().StaticCallee()
		if len(callsIn(h, isIO)) == 0 {
			continue
		}
		// a helper that does the I/O unconditionally and returns its error (no error parameter): the call in
		// writer.Run IS the I/O site — it has to be guarded there
		hasErrParam := false
		for _, par := range h.Params {
			if errorLike(par.Type()) {
				hasErrParam = true
			}
		}
		res := h.Signature.Results()
		if !hasErrParam && res.Len() > 0 && errorLike(res.At(res.Len()-1).Type()) {
			if call, isCall := c.(*ssa.Call); isCall {
				rep.Analysed(funcName(h))
				sites = append(sites, site{run, call, h.Name()})
				continue
			}
		}
		if !helpers[h] {
			helpers[h] = true
			rep.Analysed(funcName(h))
			collect(h)
		}
	}

	var runWebRoots []ssa.Value
	sameWeb := errorWeb(p, run)
	for _, s := range sites {
		key := funcName(s.fn) + "|" + s.name
		ok := false
		how := ""
		for _, e := range nilGuards(s.call.Block()) {
			if s.fn == run {
				if phiWebReaches(e, s.call, map[ssa.Value]bool{}) || sameWeb(e, s.call) {
					ok, how = true, "guarded by err == nil on the loop-carried writer error"
					runWebRoots = append(runWebRoots, e)
				}
				continue
			}
			// helper: e must be (fed by) an error parameter, the helper must return a value fed by the I/O
			// result and by that parameter, and writer.Run must feed the helper's result back into that argument
			pi := -1
			for i, par := range s.fn.Params {
				if phiWebReaches(e, par, map[ssa.Value]bool{}) || e == ssa.Value(par) {
					pi = i
				}
			}
			if pi < 0 {
				continue
			}
			retOK := true
			nret := 0
			for _, b := range s.fn.Blocks {
				r, isRet := b.Instrs[len(b.Instrs)-1].(*ssa.Return)
				if !isRet || len(r.Results) == 0 {
					continue
				}
				res := r.Results[len(r.Results)-1]
				if !errorLike(res.Type()) {
					retOK = false
					continue
				}
				nret++
				if isNilConst(res) {
					if !resetGuard(blockFacts(b)) {
						retOK = false
					}
					continue
				}
				if !(phiWebReaches(res, s.call, map[ssa.Value]bool{}) || phiWebReaches(res, s.fn.Params[pi], map[ssa.Value]bool{})) {
					retOK = false
				}
			}
			if !retOK || nret == 0 {
				continue
			}
			// call sites in Run
			fed := true
			ncs := 0
			for _, c := range callsIn(run, func(cal *ssa.Function, _ ssa.CallInstruction) bool { return cal == s.fn }) {
				cv, isCall := c.(*ssa.Call)
				if !isCall || pi >= len(c.Common().Args) {
					fed = false
					continue
				}
				ncs++
				arg := c.Common().Args[pi]
				if !phiWebReaches(arg, cv, map[ssa.Value]bool{}) && !sameWeb(arg, cv) {
					fed = false
				} else {
					runWebRoots = append(runWebRoots, arg)
				}
			}
			if fed && ncs > 0 {
				ok, how = true, "guarded by err == nil on the helper's error parameter, which writer.Run feeds from the helper's own result (sticky)"
			}
		}
		if ok {
			rep.OK("STICKY", key, p.InstrPos(s.call), how)
		} else {
			rep.Bad("STICKY", key, p.InstrPos(s.call), "I/O call in the writer is not guarded by `err == nil` on the sticky writer error: after a failed write the writer keeps writing (pages of a failed transaction reach the file, a later sync may report success)")
		}
		// RELEASE (post-dominance form) only where the I/O sits directly in writer.Run; the value stored is decided by RELEASE (engine A)
		if s.fn != run {
			continue
		}
		pd := postDominators(run)
		guardBlock := s.call.Block().Idom()
		okRel := false
		var relPos string
		for _, rc := range callsIn(run, func(cal *ssa.Function, _ ssa.CallInstruction) bool { return cal == release }) {
			rb := rc.Block()
			if guardBlock == nil || !pd[guardBlock][rb] {
				continue
			}
			idx := instrIndex(rb, rc)
			for i := 0; i < idx; i++ {
				if st, ok := rb.Instrs[i].(*ssa.Store); ok && addrField(st.Addr) == errField {
					if st.Val == ssa.Value(s.call) || phiWebReaches(st.Val, s.call, map[ssa.Value]bool{}) || sameWeb(st.Val, s.call) {
						okRel = true
						relPos = p.InstrPos(rc)
					}
				}
			}
		}
		if okRel {
			rep.OK("RELEASE", key+"|postdom", relPos, "Release() post-dominates the guard of the I/O call and follows the store of the error")
		} else {
			rep.Bad("RELEASE", key+"|postdom", p.InstrPos(s.call), "no Release() that is executed on every path through the message handling after the error was stored into txWriteSync.err: Wait() can hang or return a stale error")
		}
	}
	// reset edges of the loop-carried error in writer.Run
	seenPhi := map[*ssa.Phi]bool{}
	for _, root := range runWebRoots {
		web := phiWeb(run, root)
		for _, b := range run.Blocks {
			for _, ins := range b.Instrs {
				if phi, ok := ins.(*ssa.Phi); ok && errorLike(phi.Type()) && sameWeb(phi, root) {
					web[phi] = true
				}
			}
		}
		for phi := range web {
			if seenPhi[phi] {
				continue
			}
			seenPhi[phi] = true
			for i, e := range phi.Edges {
				if !isNilConst(e) {
					continue
				}
				pred := phi.Block().Preds[i]
				key := "writer.Run|reset-edge"
				if pred == run.Blocks[0] {
					rep.OK("STICKY", key+"|entry", p.Pos(run.Pos()), "initial value")
					continue
				}
				if resetGuard(edgeFacts(pred, phi.Block(), 0, map[ssa.Value]bool{})) {
					rep.OK("STICKY", key+"|syncResetErr", p.Pos(run.Pos()), "error reset only under syncFlags.Test(syncResetErr)")
				} else {
					rep.Bad("STICKY", key+"|unguarded", p.Pos(run.Pos()), "the writer's sticky error is reset to nil on a path that is not guarded by syncFlags.Test(syncResetErr)")
				}
			}
		}
	}
}

// ruleSTABLEBATCH: sorting a batch of queued writes must be stable.
func ruleSTABLEBATCH(p *Program, rep *Report) {
	rep.Rule("STABLE-BATCH", 0, "any sort applied to a []writeMsg (queued page writes, possibly several to one page id) is a stable sort")
	writeMsg := p.Named("txfile", "writeMsg")
	isMsgSlice := func(t types.Type) bool {
		s, ok := t.Underlying().(*types.Slice)
		if !ok {
			return false
		}
		n, ok := s.Elem().(*types.Named)
		return ok && n.Obj() == writeMsg.Obj()
	}
	found := 0
	for _, fn := range p.SrcFuncs() {
		for _, b := range fn.Blocks {
			for _, ins := range b.Instrs {
				c, ok := ins.(ssa.CallInstruction)
				if !ok {
					continue
				}
				callee := c.Common().StaticCallee()
				if callee == nil || callee.Pkg == nil {
					continue
				}
				pkg := callee.Pkg.Pkg.Path()
				if pkg != "sort" && pkg != "slices" {
					continue
				}
				// does any argument carry a []writeMsg?
				carries := false
				for _, a := range c.Common().Args {
					v := a
					if mi, ok := v.(*ssa.MakeInterface); ok {
						v = mi.X
					}
					if isMsgSlice(v.Type()) {
						carries = true
					}
				}
				if !carries {
					continue
				}
				found++
				rep.Analysed(funcName(fn))
				key := funcName(fn) + "|" + pkg + "." + callee.Name()
				switch callee.Name() {
				case "SliceStable", "Stable", "SortStableFunc":
					// a stable sort keeps equal elements in order only for a STRICT less: with `<=` both
					// less(i,j) and less(j,i) hold for equal ids and the insertion steps swap them
					if ns := nonStrictLess(p, c); ns != "" {
						rep.Bad("STABLE-BATCH", key+"|strict-less", p.InstrPos(ins), "the ordering function handed to the stable sort is not strict ("+ns+"): for two queued writes to the same page id less(i,j) and less(j,i) are both true, the stable sort then REVERSES them — the older write (e.g. of a rolled back transaction) is executed last and wins")
					} else {
						rep.OK("STABLE-BATCH", key, p.InstrPos(ins), "stable sort with a strict ordering keeps FIFO order of writes to one page")
					}
				default:
					rep.Bad("STABLE-BATCH", key, p.InstrPos(ins), "unstable sort over queued page writes: two writes to the same page id in one batch can be swapped, so older contents (e.g. of a rolled back transaction) can win")
				}
			}
		}
	}
	if found == 0 {
		rep.OK("STABLE-BATCH", "no-sort", "", "no sort is applied to queued page writes (FIFO order kept)")
	}
}

// nonStrictLess inspects the ordering function of a sort call (closure / function argument, or the Less
// method of a sort.Interface argument): returns a description if some return value is a non-strict
// comparison (<= or >=), "" if every return is strict / not a comparison.
func nonStrictLess(p *Program, c ssa.CallInstruction) string {
	var fns []*ssa.Function
	for _, a := range c.Common().Args {
		switch x := resolveFuncValue(a, 0).(type) {
		case *ssa.MakeClosure:
			if f, ok := x.Fn.(*ssa.Function); ok {
				fns = append(fns, f)
			}
		case *ssa.Function:
			fns = append(fns, x)
		case *ssa.MakeInterface:
			if n := namedOf(x.X.Type()); n != nil {
				for _, recv := range []types.Type{n, types.NewPointer(n)} {
					if sel := p.Prog.MethodSets.MethodSet(recv).Lookup(n.Obj().Pkg(), "Less"); sel != nil {
						if f := p.Prog.MethodValue(sel); f != nil {
							fns = append(fns, f)
						}
					}
				}
			}
		}
	}
	for _, f := range fns {
		if f.Signature.Results().Len() != 1 {
			continue
		}
		for _, b := range f.Blocks {
			r, ok := b.Instrs[len(b.Instrs)-1].(*ssa.Return)
			if !ok || len(r.Results) != 1 {
				continue
			}
			if bo, ok := stripConv(retVal(r, 0)).(*ssa.BinOp); ok && (bo.Op == token.LEQ || bo.Op == token.GEQ) {
				return "returns x " + bo.Op.String() + " y at " + p.InstrPos(r)
			}
		}
	}
	return ""
}
