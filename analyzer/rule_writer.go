package main

// Background writer rules (DESIGN §3 C01.4, C08.5, C03.2): STICKY, RELEASE, STABLE-BATCH.

import (
	"go/constant"
	"go/token"
	"go/types"

	"golang.org/x/tools/go/ssa"
)

// phiWebReaches: starting at v, following φ edges, do we reach target?
func phiWebReaches(v, target ssa.Value, seen map[ssa.Value]bool) bool {
	if v == target {
		return true
	}
	if seen[v] {
		return false
	}
	seen[v] = true
	if phi, ok := v.(*ssa.Phi); ok {
		for _, e := range phi.Edges {
			if phiWebReaches(e, target, seen) {
				return true
			}
		}
	}
	return false
}

// phiWeb: all φ nodes connected to v through φ edges (both directions within fn).
func phiWeb(fn *ssa.Function, start ssa.Value) map[*ssa.Phi]bool {
	web := map[*ssa.Phi]bool{}
	inWeb := map[ssa.Value]bool{start: true}
	changed := true
	for changed {
		changed = false
		for _, b := range fn.Blocks {
			for _, ins := range b.Instrs {
				phi, ok := ins.(*ssa.Phi)
				if !ok {
					break
				}
				touch := inWeb[phi]
				for _, e := range phi.Edges {
					if inWeb[e] {
						touch = true
					}
				}
				if !touch {
					continue
				}
				if !web[phi] {
					web[phi] = true
					changed = true
				}
				if !inWeb[phi] {
					inWeb[phi] = true
					changed = true
				}
				for _, e := range phi.Edges {
					if _, isPhi := e.(*ssa.Phi); isPhi && !inWeb[e] {
						inWeb[e] = true
						changed = true
					}
				}
			}
		}
	}
	return web
}

func ruleSTICKY(p *Program, rep *Report) {
	rep.Rule("STICKY", 3, "in writer.Run every write/sync I/O call is dominated by `err == nil` on the loop-carried error that its own result feeds; the error is only reset to nil under syncFlags.Test(syncResetErr)")
	rep.Rule("RELEASE", 2, "every dequeued write/sync message is Release()d on every path (not only when I/O was attempted), after the error has been stored into its txWriteSync")
	run := p.Method("txfile", "writer", "Run")
	writeAt := p.Func("txfile", "writeAt")
	execSync := p.Method("txfile", "writer", "execSync")
	release := p.Method("txfile", "txWriteSync", "Release")
	testFn := p.Method("txfile", "syncFlag", "Test")
	errField := p.FieldVar("txfile", "txWriteSync", "err")
	resetC := p.Tx.Const("syncResetErr")
	if resetC == nil {
		panic(vocabMiss{"txfile.syncResetErr"})
	}
	resetBit, _ := constant.Int64Val(resetC.Value.Value)
	rep.Analysed(funcName(run))
	pd := postDominators(run)

	isIO := func(callee *ssa.Function, c ssa.CallInstruction) bool {
		if callee == writeAt || callee == execSync {
			return true
		}
		if c.Common().IsInvoke() {
			m := c.Common().Method.Name()
			return m == "WriteAt" || m == "Sync"
		}
		return false
	}
	ios := callsIn(run, isIO)
	var webRoot ssa.Value
	for _, c := range ios {
		call, ok := c.(*ssa.Call)
		if !ok {
			rep.Bad("STICKY", "writer.Run|deferred-io", p.InstrPos(c), "I/O call in writer.Run is deferred / spawned")
			continue
		}
		name := "invoke"
		if sc := c.Common().StaticCallee(); sc != nil {
			name = sc.Name()
		} else {
			name = c.Common().Method.Name()
		}
		key := "writer.Run|" + name
		facts := blockFacts(call.Block())
		good := facts.every(func(cj conj) bool {
			return cj.has(func(a atom) bool {
				op, x, y, ok := cmpAtom(a)
				if !ok || op != token.EQL {
					return false
				}
				var e ssa.Value
				if isNilConst(y) {
					e = x
				} else if isNilConst(x) {
					e = y
				} else {
					return false
				}
				if !errorLike(e.Type()) {
					return false
				}
				// sticky: the guarded call's own result flows back into the guard through φs
				if phiWebReaches(e, call, map[ssa.Value]bool{}) {
					webRoot = e
					return true
				}
				return false
			})
		})
		if good {
			rep.OK("STICKY", key, p.InstrPos(call), "guarded by err == nil on the loop-carried writer error")
		} else {
			rep.Bad("STICKY", key, p.InstrPos(call), "I/O call in the writer loop is not guarded by `err == nil` on the sticky writer error: after a failed write the writer keeps writing (pages of a failed transaction reach the file, a later sync may report success)")
		}
		// RELEASE for this message: a Release call in a block post-dominating the guard block, preceded by the err store
		guardBlock := call.Block().Idom()
		okRel := false
		var relPos string
		for _, rc := range callsIn(run, func(cal *ssa.Function, _ ssa.CallInstruction) bool { return cal == release }) {
			rb := rc.Block()
			if guardBlock == nil || !pd[guardBlock][rb] {
				continue
			}
			// err store before Release in the same block (or a dominating block after the I/O)
			idx := instrIndex(rb, rc)
			for i := 0; i < idx; i++ {
				if st, ok := rb.Instrs[i].(*ssa.Store); ok && addrField(st.Addr) == errField {
					if st.Val == call || phiWebReaches(st.Val, call, map[ssa.Value]bool{}) {
						okRel = true
						relPos = p.InstrPos(rc)
					}
				}
			}
		}
		if okRel {
			rep.OK("RELEASE", key, relPos, "Release() post-dominates the guard of the I/O call and follows the store of the error")
		} else {
			rep.Bad("RELEASE", key, p.InstrPos(call), "no Release() that is executed on every path through the message handling after the error was stored into txWriteSync.err: Wait() can hang or return a stale error")
		}
	}
	// reset edges
	if webRoot != nil {
		for phi := range phiWeb(run, webRoot) {
			for i, e := range phi.Edges {
				if !isNilConst(e) {
					continue
				}
				pred := phi.Block().Preds[i]
				key := "writer.Run|reset-edge"
				if pred.Index == 0 || pred == run.Blocks[0] {
					rep.OK("STICKY", key+"|entry", p.Pos(run.Pos()), "initial value")
					continue
				}
				facts := edgeFacts(pred, phi.Block(), 0, map[ssa.Value]bool{})
				good := facts.every(func(cj conj) bool {
					return cj.has(func(a atom) bool {
						c := callTo(a.v, testFn)
						if c == nil || !a.pol {
							return false
						}
						args := c.Common().Args
						k, ok := stripConv(args[len(args)-1]).(*ssa.Const)
						if !ok || k.Value == nil {
							return false
						}
						n, _ := constant.Int64Val(k.Value)
						return n&resetBit != 0
					})
				})
				if good {
					rep.OK("STICKY", key+"|syncResetErr", p.Pos(run.Pos()), "error reset only under syncFlags.Test(syncResetErr)")
				} else {
					rep.Bad("STICKY", key+"|unguarded", p.Pos(run.Pos()), "the writer's sticky error is reset to nil on a path that is not guarded by syncFlags.Test(syncResetErr)")
				}
			}
		}
	}
}

// ruleSTABLEBATCH: sorting a batch of queued writes must be stable.
func ruleSTABLEBATCH(p *Program, rep *Report) {
	rep.Rule("STABLE-BATCH", 0, "any sort applied to a []writeMsg (queued page writes, possibly several to one page id) is a stable sort")
	writeMsg := p.Named("txfile", "writeMsg")
	isMsgSlice := func(t types.Type) bool {
		s, ok := t.Underlying().(*types.Slice)
		if !ok {
			return false
		}
		n, ok := s.Elem().(*types.Named)
		return ok && n.Obj() == writeMsg.Obj()
	}
	found := 0
	for _, fn := range p.SrcFuncs() {
		for _, b := range fn.Blocks {
			for _, ins := range b.Instrs {
				c, ok := ins.(ssa.CallInstruction)
				if !ok {
					continue
				}
				callee := c.Common().StaticCallee()
				if callee == nil || callee.Pkg == nil {
					continue
				}
				pkg := callee.Pkg.Pkg.Path()
				if pkg != "sort" && pkg != "slices" {
					continue
				}
				// does any argument carry a []writeMsg?
				carries := false
				for _, a := range c.Common().Args {
					v := a
					if mi, ok := v.(*ssa.MakeInterface); ok {
						v = mi.X
					}
					if isMsgSlice(v.Type()) {
						carries = true
					}
				}
				if !carries {
					continue
				}
				found++
				rep.Analysed(funcName(fn))
				key := funcName(fn) + "|" + pkg + "." + callee.Name()
				switch callee.Name() {
				case "SliceStable", "Stable", "SortStableFunc":
					rep.OK("STABLE-BATCH", key, p.InstrPos(ins), "stable sort keeps FIFO order of writes to one page")
				default:
					rep.Bad("STABLE-BATCH", key, p.InstrPos(ins), "unstable sort over queued page writes: two writes to the same page id in one batch can be swapped, so older contents (e.g. of a rolled back transaction) can win")
				}
			}
		}
	}
	if found == 0 {
		rep.OK("STABLE-BATCH", "no-sort", "", "no sort is applied to queued page writes (FIFO order kept)")
	}
}
