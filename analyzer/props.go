package main

func allOrder() map[string]bool {
	return map[string]bool{"ORDER": true, "SLOT": true, "COMMITPOINT": true, "COMMIT-ERROR-PATH": true, "ROLLBACK-ON-EVERY-FAILURE": true,
		"FINALIZE": true, "READER-IS-PASSIVE": true, "WHO-MAY-SWITCH": true}
}

func init() {
	register(&propertyDef{
		id:      "T1",
		explain: "scratch",
		run: func(p *Program, rep *Report, tier string) {
			guard(rep, "DEFERFREE", func() { ruleDEFERFREE(p, rep) })
			guard(rep, "ALLOC-RECORDED", func() { ruleALLOCRECORDED(p, rep) })
			guard(rep, "INV-FL", func() { ruleINVFL(p, rep) })
			guard(rep, "CAPACITY", func() { ruleCAPACITY(p, rep) })
			guard(rep, "UNDO-JOURNAL", func() { ruleUNDOJOURNAL(p, rep) })
			guard(rep, "STICKY", func() { ruleSTICKY(p, rep) })
			guard(rep, "STABLE-BATCH", func() { ruleSTABLEBATCH(p, rep) })
			guard(rep, "SHADOW", func() { ruleSHADOW(p, rep) })
			guard(rep, "BUFFER-PRESERVE", func() { ruleBUFFERPRESERVE(p, rep) })
			guard(rep, "WAL-RELEASE-ON-FREE", func() { ruleWALRELEASEONFREE(p, rep) })
			guard(rep, "PAGE-BOUNDS", func() { rulePAGEBOUNDS(p, rep) })
			guard(rep, "SETBYTES-BOUND", func() { ruleSETBYTESBOUND(p, rep) })
			guard(rep, "LOCKSET", func() { ruleLOCKSET(p, rep) })
			guard(rep, "ERRDISC", func() { ruleERRDISC(p, rep, "", false) })
			guard(rep, "ERRDISC", func() { ruleERRDISC(p, rep, "pq", false) })
		},
	})
	register(&propertyDef{
		id:      "C15",
		explain: "LIFECYCLE",
		run: func(p *Program, rep *Report, tier string) {
			guard(rep, "LIFECYCLE", func() { ruleLIFECYCLE(p, rep) })
		},
	})
	register(&propertyDef{
		id:      "C01",
		explain: "ORDER etc.",
		run: func(p *Program, rep *Report, tier string) {
			guard(rep, "ORDER", func() { ruleORDER(p, rep, allOrder()) })
		},
	})
	register(&propertyDef{
		id:      "C09",
		explain: "LOCKS: lock pairing and API lock contracts on every exit of every exported root, decided by abstract interpretation of the SSA with a lock-state property automaton (see DESIGN.md C09).",
		run: func(p *Program, rep *Report, tier string) {
			guard(rep, "LOCKS", func() { ruleLOCKS(p, rep, nil, true) })
		},
	})
}
