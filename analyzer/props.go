package main

func allOrder() map[string]bool {
	return map[string]bool{"ORDER": true, "SLOT": true, "COMMITPOINT": true, "COMMIT-ERROR-PATH": true, "ROLLBACK-ON-EVERY-FAILURE": true,
		"FINALIZE": true, "READER-IS-PASSIVE": true, "WHO-MAY-SWITCH": true}
}

func init() {
	register(&propertyDef{
		id:      "C15",
		explain: "LIFECYCLE",
		run: func(p *Program, rep *Report, tier string) {
			guard(rep, "LIFECYCLE", func() { ruleLIFECYCLE(p, rep) })
		},
	})
	register(&propertyDef{
		id:      "C01",
		explain: "ORDER etc.",
		run: func(p *Program, rep *Report, tier string) {
			guard(rep, "ORDER", func() { ruleORDER(p, rep, allOrder()) })
		},
	})
	register(&propertyDef{
		id:      "C09",
		explain: "LOCKS: lock pairing and API lock contracts on every exit of every exported root, decided by abstract interpretation of the SSA with a lock-state property automaton (see DESIGN.md C09).",
		run: func(p *Program, rep *Report, tier string) {
			guard(rep, "LOCKS", func() { ruleLOCKS(p, rep, nil, true) })
		},
	})
}
