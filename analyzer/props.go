package main

func init() {
	register(&propertyDef{
		id:      "C09",
		explain: "LOCKS: lock pairing and API lock contracts on every exit of every exported root, decided by abstract interpretation of the SSA with a lock-state property automaton (see DESIGN.md C09).",
		run: func(p *Program, rep *Report, tier string) {
			guard(rep, "LOCKS", func() { ruleLOCKS(p, rep, nil, true) })
		},
	})
}
