package main

import "strings"

// Which rules decide (clauses of) which property.  See DESIGN.md §3.

func orderSet(names ...string) map[string]bool {
	m := map[string]bool{}
	for _, n := range names {
		m[n] = true
	}
	return m
}

func g(rep *Report, rule string, f func()) { guard(rep, rule, f) }

func init() {
	register(&propertyDef{
		id: "C01",
		explain: "Decides the commit/recovery PROTOCOL that crash atomicity rests on, on every path of the current source: " +
			"(ORDER/SLOT/FINALIZE) data → sync → finalized header to the inactive slot → sync → Wait()==nil → in-memory switch, as a typestate over the interprocedural event trace of Tx.Commit (metaActive ∈ {0,1}) and Open; " +
			"(WHO-MAY-SWITCH) headers/switches only below Commit and the init transactions; (SHADOW/SCHEDULE-SITES) a page write never targets a location the committed state references; " +
			"(DEFERFREE) frees are journaled, never recycled inside the freeing transaction; (STICKY/RELEASE) the writer skips all I/O after the first error and always releases; " +
			"(VALIDATE-COMPLETE/CHECKSUM-COVERAGE) a header is accepted only with magic, version and a checksum that covers every field. " +
			"Not decided: which subset of unsynced writes survives a crash, torn header bytes, truncate arithmetic, that vfs.File.Sync makes data durable. Added later (DESIGN §8.7–8.9): TRUNCATE-COVERS, SYNC-COVERS-BATCH, REGION-CODEC, QUEUE-UNCONDITIONAL (every Sync/Schedule is queued, whatever the sync mode), FLAG-MONOTONE (page flags only ever set), IO-OWNER (only the background writer writes/syncs the data file), TRUNCATE-KEEPS-PREVIOUS (a commit truncates no further than the previous state needs).",
		run: func(p *Program, rep *Report, tier string) {
			g(rep, "SYNC-COVERS-BATCH", func() { ruleSYNCCOVERSBATCH(p, rep) })
			g(rep, "REGION-CODEC", func() { ruleREGIONCODEC(p, rep) })
			g(rep, "ORDER", func() { ruleORDER(p, rep, orderSet("ORDER", "SLOT", "FINALIZE", "WHO-MAY-SWITCH")) })
			g(rep, "SHADOW", func() { ruleSHADOW(p, rep) })
			g(rep, "DEFERFREE", func() { ruleDEFERFREE(p, rep) })
			g(rep, "STICKY", func() { ruleSTICKYAI(p, rep); ruleSTICKYSSA(p, rep) })
			g(rep, "VALIDATE-COMPLETE", func() { ruleVALIDATECOMPLETE(p, rep) })
			g(rep, "CHECKSUM-COVERAGE", func() { ruleCHECKSUMCOVERAGE(p, rep) })
			g(rep, "TRUNCATE-COVERS", func() { ruleTRUNCATECOVERS(p, rep) })
			g(rep, "QUEUE-UNCONDITIONAL", func() { ruleQUEUEUNCONDITIONAL(p, rep) })
			g(rep, "FLAG-MONOTONE", func() { ruleFLAGMONOTONE(p, rep) })
			g(rep, "IO-OWNER", func() { ruleIOOWNER(p, rep) })
			g(rep, "TRUNCATE-KEEPS-PREVIOUS", func() { ruleTRUNCATEKEEPSPREVIOUS(p, rep) })
		},
	})
	register(&propertyDef{
		id: "C02",
		explain: "Decides the structural conditions of snapshot isolation: (LOCKSET) every write to the pointers that define what a transaction sees (File.metaActive/meta/mapped/size, waLog.mapping, allocator state, FileStats) and every access by a concurrent role hold a conflicting lock pair — evaluated per role (reader, writer, Close, background writer) by abstract interpretation with the lock state; " +
			"(SNAPSHOT-AT-BEGIN) the per-transaction snapshot is taken under the transaction lock; (READER-IS-PASSIVE) no write/sync/switch/rollback is reachable from any method of a read-only transaction; " +
			"(LOCKS preconditions) the exclusive wait happens only under Pending, Pending only under the writer lock; (SHADOW, DEFERFREE) the writer never changes bytes a reader can reach; (ORDER) the pages a transaction freed reach the free lists only through the in-memory switch, which is placed after a successful Wait — a failed commit never makes committed pages allocatable. " +
			"Not decided: the condition-variable implementation in lock.go, poisoned views after remap, any actual interleaving. Added later (§8.8–8.9): ORDER (freed pages reach the free lists only after a successful Wait), BOUND-SOURCE (read-only page bound from the committed header), STABLE-BATCH (stable sort with a strict ordering of queued writes).",
		run: func(p *Program, rep *Report, tier string) {
			g(rep, "LOCKSET", func() { ruleLOCKSET(p, rep) })
			g(rep, "ORDER", func() { ruleORDER(p, rep, orderSet("ORDER", "READER-IS-PASSIVE")) })
			g(rep, "LOCKS", func() {
				ruleLOCKS(p, rep, func(r lockRoot) bool {
					return r.name == "File.Close" || strings.HasPrefix(r.name, "Tx.Commit[tx(") || strings.HasPrefix(r.name, "File.Begin")
				}, true)
			})
			g(rep, "SHADOW", func() { ruleSHADOW(p, rep) })
			g(rep, "DEFERFREE", func() { ruleDEFERFREE(p, rep) })
			g(rep, "BOUND-SOURCE", func() { ruleBOUNDSOURCE(p, rep) })
			g(rep, "STABLE-BATCH", func() { ruleSTABLEBATCH(p, rep) })
		},
	})
	register(&propertyDef{
		id: "C03",
		explain: "Decides three structural necessary conditions of 'the store returns what was written' (the model equivalence itself is not statically decidable): " +
			"(BUFFER-PRESERVE) the page write buffer is only replaced when nothing is lost; (STABLE-BATCH) queued writes to one page keep FIFO order (any sort over []writeMsg is stable); " +
			"(WAL-RELEASE-ON-FREE) freeing a redirected page releases the overwrite page and its mapping on every success path. Not decided: partial-write arithmetic, checkpoint copy, mapping update. Added later (§8.6–8.9): CHECKPOINT-COMPLETE, READ-LOCATION, ORDER, FLAG-MONOTONE, strict ordering function in STABLE-BATCH.",
		run: func(p *Program, rep *Report, tier string) {
			g(rep, "BUFFER-PRESERVE", func() { ruleBUFFERPRESERVE(p, rep) })
			g(rep, "STABLE-BATCH", func() { ruleSTABLEBATCH(p, rep) })
			g(rep, "WAL-RELEASE-ON-FREE", func() { ruleWALRELEASEONFREE(p, rep) })
			g(rep, "CHECKPOINT-COMPLETE", func() { ruleCHECKPOINTCOMPLETE(p, rep) })
			g(rep, "READ-LOCATION", func() { ruleREADLOCATION(p, rep) })
			g(rep, "FLAG-MONOTONE", func() { ruleFLAGMONOTONE(p, rep) })
			g(rep, "ORDER", func() { ruleORDER(p, rep, orderSet("ORDER")) })
		},
	})
	register(&propertyDef{
		id: "C04",
		explain: "Decides structural conditions of exclusive page ownership: (DEFERFREE) freed pages are only journaled; (ALLOC-RECORDED) every allocation primitive sits in a wrapper that records the pages in the transaction's journal; " +
			"(INV-FL) every end-marker store preserves 'free regions lie below the end marker'; (PAGE-BOUNDS) Tx.getPage creates/looks up a page only under id ≥ 2, id < end marker, not freed; (WAL-RELEASE-ON-FREE). " +
			"Not decided: arithmetic of region splitting/merging, meta-area growth sizes, exactness of the partition. Added later (§8.7–8.9): TOMBSTONE, SNAPSHOT-AFTER-ALLOC, FILE-END-AGREE, ALLOC-UNDOABLE, TRIM-SOURCE, REGION-CODEC, DATA-END-SKIPS-OVERFLOW (two known findings: D16).",
		run: func(p *Program, rep *Report, tier string) {
			g(rep, "FILE-END-AGREE", func() { ruleFILEENDAGREE(p, rep) })
			g(rep, "DATA-END-SKIPS-OVERFLOW", func() { ruleDATAENDSKIPSOVERFLOW(p, rep) })
			g(rep, "REGION-CODEC", func() { ruleREGIONCODEC(p, rep) })
			g(rep, "DEFERFREE", func() { ruleDEFERFREE(p, rep) })
			g(rep, "ALLOC-RECORDED", func() { ruleALLOCRECORDED(p, rep) })
			g(rep, "ALLOC-UNDOABLE", func() { ruleALLOCUNDOABLE(p, rep) })
			g(rep, "INV-FL", func() { ruleINVFL(p, rep) })
			g(rep, "TRIM-SOURCE", func() { ruleTRIMSOURCE(p, rep) })
			g(rep, "PAGE-BOUNDS", func() { rulePAGEBOUNDS(p, rep) })
			g(rep, "WAL-RELEASE-ON-FREE", func() { ruleWALRELEASEONFREE(p, rep) })
			g(rep, "TOMBSTONE", func() { ruleTOMBSTONE(p, rep) })
			g(rep, "SNAPSHOT-AFTER-ALLOC", func() { ruleSNAPSHOTAFTERALLOC(p, rep) })
		},
	})
	register(&propertyDef{
		id: "C05",
		explain: "Decides structural necessary conditions of event framing only (delivery equality itself is numeric and not decided): (EVENT-SIZE-SOURCE) the size header of an event is computed from the per-event byte counter and every payload appended to the buffer is counted in it; (EVENT-BOUNDARY) once an event is published in the buffer the per-event state (byte counter, event id, counters) advances on every path, also when the implicit flush fails; " +
			"(TAIL-OFFSET) the tail offset a flush persists is the recorded start of the unfinished event, so a reopened writer appends directly behind the last complete event; (POSITION-COHERENT) the reader derives its position from one page; (READ-CONSUME) the reader takes what the cursor consumed off the remaining event size before the next step. " +
			"Not decided: page spill arithmetic of buffer/cursor, header/offset values being the right numbers, chunking-independence as a whole. Added in §8.9: PER-EVENT-STATE (the state of the unfinished event survives a flush), PAGES-COUNT (a partial flush range is never returned with the total page count; D17 fixed).",
		run: func(p *Program, rep *Report, tier string) {
			g(rep, "EVENT-SIZE-SOURCE", func() { ruleEVENTSIZESOURCE(p, rep) })
			g(rep, "PER-EVENT-STATE", func() { rulePEREVENTSTATE(p, rep) })
			g(rep, "PAGES-COUNT", func() { rulePAGESCOUNT(p, rep) })
			g(rep, "EVENT-BOUNDARY", func() { ruleEVENTBOUNDARY(p, rep) })
			g(rep, "TAIL-OFFSET", func() { ruleTAILOFFSET(p, rep) })
			g(rep, "POSITION-COHERENT", func() { rulePOSITIONCOHERENT(p, rep) })
			g(rep, "READ-CONSUME", func() { ruleREADCONSUME(p, rep) })
			g(rep, "ADVANCE-BETWEEN-EVENTS", func() { ruleADVANCEBETWEENEVENTS(p, rep) })
		},
	})
	register(&propertyDef{
		id: "C06",
		explain: "Decides the transaction protocol of the queue: (PQTX) a flush and an ACK are each exactly one write transaction, file mutations only inside it, in-memory advance and callbacks only after Commit()==nil; " +
			"(KEEPWRITEPAGE) the last page is never put on the ACK free plan; (TX-PAIRING) every transaction begun by pq is finished on every exit; (ERRDISC) no txfile error is dropped in pq; " +
			"and on the txfile side the commit protocol (ORDER/SLOT). Not decided: that positions/links written are the right numbers, recovery of reader/writer state, crash subsets. Added later (§8.6–8.9): POSITION-COHERENT, TAIL-OFFSET, NESTED-TX, WAL-RELEASE-ON-FREE, PAGE-HEADER-AGREE (page loader restores what the header persists), READ-START-AGREE.",
		run: func(p *Program, rep *Report, tier string) {
			g(rep, "PQTX", func() { rulePQTX(p, rep) })
			g(rep, "KEEPWRITEPAGE", func() { ruleKEEPWRITEPAGE(p, rep) })
			g(rep, "POSITION-COHERENT", func() { rulePOSITIONCOHERENT(p, rep) })
			g(rep, "TAIL-OFFSET", func() { ruleTAILOFFSET(p, rep) })
			g(rep, "WAL-RELEASE-ON-FREE", func() { ruleWALRELEASEONFREE(p, rep) })
			g(rep, "PAGE-HEADER-AGREE", func() { rulePAGEHEADERAGREE(p, rep) })
			g(rep, "READ-START-AGREE", func() { ruleREADSTARTAGREE(p, rep) })
			g(rep, "TX-PAIRING", func() { ruleTXPAIRING(p, rep) })
			g(rep, "ERRDISC", func() { ruleERRDISC(p, rep, "pq", false) })
			g(rep, "ORDER", func() { ruleORDER(p, rep, orderSet("ORDER", "SLOT")) })
		},
	})
	register(&propertyDef{
		id: "C07",
		explain: "Decides structural conditions of 'an aborted transaction leaves no trace': (ROLLBACK-ON-EVERY-FAILURE) every Commit failing before the commit point and every Rollback/Close of a write transaction runs the allocator rollback exactly once, a successful Commit never; " +
			"(COMMITPOINT) no rollback and no error return after the in-memory switch; (UNDO-JOURNAL) every pre-commit mutation of allocator state has a journal entry that Rollback reads; (INV-FL) the rollback's end-marker store trims the freelist. " +
			"Not decided: that the undo is numerically exact, truncate sizing. Added later (§8.6–8.9): PRECOMMIT-NO-ALIAS, DEFERFREE, TRUNCATE-COVERS, every-entry undo, ALLOC-UNDOABLE, TRIM-SOURCE.",
		run: func(p *Program, rep *Report, tier string) {
			g(rep, "ORDER", func() { ruleORDER(p, rep, orderSet("ROLLBACK-ON-EVERY-FAILURE", "COMMITPOINT")) })
			g(rep, "UNDO-JOURNAL", func() { ruleUNDOJOURNAL(p, rep) })
			g(rep, "ALLOC-UNDOABLE", func() { ruleALLOCUNDOABLE(p, rep) })
			g(rep, "INV-FL", func() { ruleINVFL(p, rep) })
			g(rep, "TRIM-SOURCE", func() { ruleTRIMSOURCE(p, rep) })
			g(rep, "DEFERFREE", func() { ruleDEFERFREE(p, rep) })
			g(rep, "PRECOMMIT-NO-ALIAS", func() { rulePRECOMMITNOALIAS(p, rep) })
			g(rep, "TRUNCATE-COVERS", func() { ruleTRUNCATECOVERS(p, rep) })
		},
	})
	register(&propertyDef{
		id: "C08",
		explain: "Decides the error discipline around I/O: (ERRDISC) no error returned by a repository function or a vfs.File/Delegate method is dropped (21 allow-listed call edges, one reason each); " +
			"(COMMIT-ERROR-PATH) every exit of Commit/Open has waited for the writer and a failed Wait is followed by an error-resetting sync; (COMMITPOINT) no error return after the switch; " +
			"(LIFECYCLE) building the error of a failed or repeated operation never dereferences state cleared by close(); (STICKY/RELEASE) no I/O after the first failure, no lost Release (the only way Wait can hang). " +
			"Not decided: 'keeps seeing the last committed state' and 'commits succeed again' as behaviours; short-write arithmetic. Added later (§8.7–8.9): ORDER incl. STICKY-BARRIER, LOCKS for Commit/Rollback/Close, QUEUE-UNCONDITIONAL, IO-OWNER.",
		run: func(p *Program, rep *Report, tier string) {
			g(rep, "ERRDISC", func() { ruleERRDISC(p, rep, "", false) })
			g(rep, "ERRDISC", func() { ruleERRDISC(p, rep, "pq", true) })
			g(rep, "ORDER", func() { ruleORDER(p, rep, orderSet("ORDER", "COMMIT-ERROR-PATH", "COMMITPOINT")) })
			g(rep, "LOCKS", func() {
				ruleLOCKS(p, rep, func(r lockRoot) bool {
					return strings.HasPrefix(r.name, "Tx.Commit[tx(") || strings.HasPrefix(r.name, "Tx.Rollback[tx(") || strings.HasPrefix(r.name, "Tx.Close[tx(")
				}, false)
			})
			g(rep, "LIFECYCLE", func() { ruleLIFECYCLE(p, rep, "tx-finished") })
			g(rep, "STICKY", func() { ruleSTICKYAI(p, rep); ruleSTICKYSSA(p, rep) })
			g(rep, "QUEUE-UNCONDITIONAL", func() { ruleQUEUEUNCONDITIONAL(p, rep) })
			g(rep, "IO-OWNER", func() { ruleIOOWNER(p, rep) })
		},
	})
	register(&propertyDef{
		id: "C09",
		explain: "Decides lock pairing, lock order and guarded-by: (LOCKS) on every path of every exported root (Open, File.Close, Begin*, every Tx and Page method per role and lifecycle scenario, the background writer) each lock acquired is released and the per-exit API contract holds, split by error nil-ness; " +
			"(LOCK-ORDER) acquisition edges are consistent with Reserved < Pending < Exclusive < internal mutexes, Exclusive only under Pending, Pending only under the writer lock; (LOCKSET) role-sensitive guarded-by analysis for data races; (WAKEUP) the many-waiter condition lock.shared is only woken by Broadcast and both release paths reach their wake-up; (RELEASE) the WaitGroup hand-off of the writer error. " +
			"Not decided: fairness, user-level self-deadlock, the waiting predicates of lock.go beyond the wake-up discipline.",
		run: func(p *Program, rep *Report, tier string) {
			g(rep, "LOCKS", func() { ruleLOCKS(p, rep, nil, true) })
			g(rep, "LOCKSET", func() { ruleLOCKSET(p, rep) })
			g(rep, "WAKEUP", func() { ruleWAKEUP(p, rep) })
			g(rep, "STICKY", func() { ruleSTICKYAI(p, rep); ruleSTICKYSSA(p, rep) })
		},
	})
	register(&propertyDef{
		id: "C10",
		explain: "Decides the agreement clauses of close/reopen: (PERSIST-AGREE) every persisted header field written on a commit/flush/ACK path (file header, queue header, event page header) is read back on the open/read path; " +
			"(RELOAD-AGREE) every in-memory field assigned by the commit-time switch is also assigned by the open-time loaders. Not decided: encode/decode round trip, page-count prediction, 7-byte ids. Added later (§8.6–8.9): MMAP-COVERS-FILE, REGION-CODEC, PERSIST-MEMORY-AGREE, RELOAD-EVERY-PATH, PAGE-HEADER-AGREE.",
		run: func(p *Program, rep *Report, tier string) {
			g(rep, "REGION-CODEC", func() { ruleREGIONCODEC(p, rep) })
			g(rep, "PERSIST-AGREE", func() { rulePERSISTAGREE(p, rep) })
			g(rep, "RELOAD-AGREE", func() { ruleRELOADAGREE(p, rep) })
			g(rep, "PERSIST-MEMORY-AGREE", func() { rulePERSISTMEMORYAGREE(p, rep) })
			g(rep, "RELOAD-EVERY-PATH", func() { ruleRELOADEVERYPATH(p, rep) })
			g(rep, "MAPPED-BOUND-EXACT", func() { ruleMAPPEDBOUNDEXACT(p, rep) })
			g(rep, "PAGE-HEADER-AGREE", func() { rulePAGEHEADERAGREE(p, rep) })
			g(rep, "MMAP-COVERS-FILE", func() { ruleMMAPCOVERSFILE(p, rep) })
		},
	})
	register(&propertyDef{
		id: "C11",
		explain: "Decides the size-limit clause: (CAPACITY) every end-marker advance is dominated by a capacity test derived from maxPages/Avail() or by the overflow flag; (OVERFLOW-GATE) that flag is only ever the transaction's EnableOverflowArea option or false; " +
			"plus (UNDO-JOURNAL, INV-FL) no page vanishes on rollback. Not decided: the conservation equation, FileStats arithmetic, truncation. Added later (§8.7–8.9): DEFERFREE, SNAPSHOT-AFTER-ALLOC, ALLOC-UNDOABLE, FILE-END-AGREE.",
		run: func(p *Program, rep *Report, tier string) {
			g(rep, "SNAPSHOT-AFTER-ALLOC", func() { ruleSNAPSHOTAFTERALLOC(p, rep) })
			g(rep, "FILE-END-AGREE", func() { ruleFILEENDAGREE(p, rep) })
			g(rep, "REGION-CODEC", func() { ruleREGIONCODEC(p, rep) })
			g(rep, "CAPACITY", func() { ruleCAPACITY(p, rep) })
			g(rep, "DEFERFREE", func() { ruleDEFERFREE(p, rep) })
			g(rep, "UNDO-JOURNAL", func() { ruleUNDOJOURNAL(p, rep) })
			g(rep, "ALLOC-UNDOABLE", func() { ruleALLOCUNDOABLE(p, rep) })
			g(rep, "INV-FL", func() { ruleINVFL(p, rep) })
		},
	})
	register(&propertyDef{
		id: "C12",
		explain: "Decides structural conditions of space reclamation and 'full without loss': (KEEPWRITEPAGE, FREE-ALL-CONSUMED) the ACK frees exactly its plan inside the cleanup transaction and never the write page; " +
			"(FAILED-FLUSH-UNASSIGNS) a failed flush un-assigns page ids and keeps the buffer; (CLEANUP-MAY-OVERFLOW) the cleanup transaction may use the overflow area, the writer's may not; (ERRDISC) flush errors reach the caller. Not decided: the space bound, order after retry. Added later (§8.7–8.8): ACK-SCAN-FROM-HEAD, EVENT-BOUNDARY.",
		run: func(p *Program, rep *Report, tier string) {
			g(rep, "KEEPWRITEPAGE", func() { ruleKEEPWRITEPAGE(p, rep) })
			g(rep, "FREE-ALL-CONSUMED", func() { ruleFREEALLCONSUMED(p, rep) })
			g(rep, "ACK-SCAN-FROM-HEAD", func() { ruleACKSCANFROMHEAD(p, rep) })
			g(rep, "PQTX", func() { rulePQTX(p, rep) })
			g(rep, "CLEANUP-MAY-OVERFLOW", func() { ruleCLEANUPMAYOVERFLOW(p, rep) })
			g(rep, "EVENT-SIZE-SOURCE", func() { ruleEVENTSIZESOURCE(p, rep) })
			g(rep, "EVENT-BOUNDARY", func() { ruleEVENTBOUNDARY(p, rep) })
			g(rep, "ERRDISC", func() { ruleERRDISC(p, rep, "pq", false) })
		},
	})
	register(&propertyDef{
		id: "C13",
		explain: "Decides structural conditions of concurrent producer/consumer: (TX-PAIRING) no queue function leaks a transaction (= a file lock the other role waits for); (KEEPWRITEPAGE) the page the writer appends to is never in an ACK plan; " +
			"(CONFINEMENT) writer, reader and ACK roles share no mutable memory; and the file-level lock rules underneath (LOCKS for Begin/Commit/Close). Not decided: FIFO equality, validity of an ACK plan across its two transactions in general. Added later (§8.6–8.9): NESTED-TX, LOCKSET, SNAPSHOT-AT-BEGIN, EVENT-BOUNDARY, DELEGATE-ROLES.",
		run: func(p *Program, rep *Report, tier string) {
			g(rep, "LOCKSET", func() { ruleLOCKSET(p, rep) })
			g(rep, "TX-PAIRING", func() { ruleTXPAIRING(p, rep) })
			g(rep, "KEEPWRITEPAGE", func() { ruleKEEPWRITEPAGE(p, rep) })
			g(rep, "CONFINEMENT", func() { ruleCONFINEMENT(p, rep) })
			g(rep, "DELEGATE-ROLES", func() { ruleDELEGATEROLES(p, rep) })
			g(rep, "EVENT-BOUNDARY", func() { ruleEVENTBOUNDARY(p, rep) })
			g(rep, "LOCKS", func() {
				ruleLOCKS(p, rep, func(r lockRoot) bool {
					return strings.HasPrefix(r.name, "File.Begin") || strings.HasPrefix(r.name, "Tx.Commit[tx(") || strings.HasPrefix(r.name, "Tx.Close[tx(")
				}, false)
			})
		},
	})
	register(&propertyDef{
		id: "C14",
		explain: "Decides the protocol of the open-time max-size update: (LOCKS at root Open) every in-process lock is idle at every exit, the background writer and the mapping are released on every error exit (a failed resize closes the File); " +
			"(ORDER/SLOT/FINALIZE at root Open) the init transactions write a finalized header to the inactive slot, sync and wait before File.metaActive / allocator limits are switched; (ERRDISC) the only dropped result is the documented may-fail release transaction. Not decided: which pages become allocatable, extent arithmetic. Added later (§8.7–8.9): PRECOMMIT-NO-ALIAS, TRUNCATE-COVERS, MAXSIZE-DECISION, MMAP-COVERS-FILE, DATA-END-SKIPS-OVERFLOW (two known findings: D16).",
		run: func(p *Program, rep *Report, tier string) {
			g(rep, "LOCKS", func() { ruleLOCKS(p, rep, func(r lockRoot) bool { return r.name == "Open" || strings.HasPrefix(r.name, "File.Begin") }, true) })
			g(rep, "ORDER", func() { ruleORDER(p, rep, orderSet("ORDER", "SLOT", "FINALIZE", "COMMIT-ERROR-PATH")) })
			g(rep, "ERRDISC", func() { ruleERRDISC(p, rep, "", false) })
			g(rep, "PRECOMMIT-NO-ALIAS", func() { rulePRECOMMITNOALIAS(p, rep) })
			g(rep, "TRUNCATE-COVERS", func() { ruleTRUNCATECOVERS(p, rep) })
			g(rep, "MAXSIZE-DECISION", func() { ruleMAXSIZEDECISION(p, rep) })
			g(rep, "MMAP-COVERS-FILE", func() { ruleMMAPCOVERSFILE(p, rep) })
			g(rep, "DATA-END-SKIPS-OVERFLOW", func() { ruleDATAENDSKIPSOVERFLOW(p, rep) })
		},
	})
	register(&propertyDef{
		id: "C15",
		explain: "Decides the method × lifecycle-state matrix abstractly: for every exported method of Tx, Page, Writer, Reader, Queue and every scenario that makes the call invalid (transaction finished, read-only, page freed/flushed/dirty/new-without-buffer, writer/reader/queue closed, reader without transaction) — " +
			"no definite nil dereference, every return carries a non-nil error, no lock/writer/shared-state effect; plus (PAGE-BOUNDS) out-of-range and freed pages are rejected before any page object is created, (SETBYTES-BOUND) oversize contents are rejected before the buffer is touched. Not decided: ACK-too-many arithmetic, error kinds through wrapping. Added later (§8.7–8.8): TOMBSTONE, ACK-BOUND, the documented error KIND per matrix cell, BOUND-SOURCE, FLAG-MONOTONE.",
		run: func(p *Program, rep *Report, tier string) {
			g(rep, "ACK-BOUND", func() { ruleACKBOUND(p, rep) })
			g(rep, "LIFECYCLE", func() { ruleLIFECYCLE(p, rep, "") })
			g(rep, "PAGE-BOUNDS", func() { rulePAGEBOUNDS(p, rep) })
			g(rep, "TOMBSTONE", func() { ruleTOMBSTONE(p, rep) })
			g(rep, "SETBYTES-BOUND", func() { ruleSETBYTESBOUND(p, rep) })
			g(rep, "BOUND-SOURCE", func() { ruleBOUNDSOURCE(p, rep) })
			g(rep, "FLAG-MONOTONE", func() { ruleFLAGMONOTONE(p, rep) })
		},
	})
	register(&propertyDef{
		id: "C16",
		explain: "Decides the header-selection protocol: (VALIDATE) in readValidMeta no field of a header read from disk is used before its Validate() returned nil and the header returned is a validated one (typestate by abstract interpretation, validity follows struct copies); " +
			"(VALIDATE-COMPLETE) Validate returns nil only after magic, version and checksum equality; (CHECKSUM-COVERAGE) the checksum is the last field of a packed struct and the hashed array covers all bytes before it (go/types layout); (NO-PANIC-ON-INPUT) no explicit panic below readValidMeta; (FINALIZE) headers are finalized before they are written. Not decided: strength of FNV-32a, torn pages. Added later (§8.7–8.9): TXID-COMPARE, exact hashed byte range, TRUNCATE-KEEPS-PREVIOUS.",
		run: func(p *Program, rep *Report, tier string) {
			g(rep, "VALIDATE", func() { ruleVALIDATE(p, rep) })
			g(rep, "VALIDATE-COMPLETE", func() { ruleVALIDATECOMPLETE(p, rep) })
			g(rep, "CHECKSUM-COVERAGE", func() { ruleCHECKSUMCOVERAGE(p, rep) })
			g(rep, "NO-PANIC-ON-INPUT", func() { ruleNOPANICONINPUT(p, rep) })
			g(rep, "TXID-COMPARE", func() { ruleTXIDCOMPARE(p, rep) })
			g(rep, "TRUNCATE-KEEPS-PREVIOUS", func() { ruleTRUNCATEKEEPSPREVIOUS(p, rep) })
			g(rep, "ORDER", func() { ruleORDER(p, rep, orderSet("FINALIZE")) })
		},
	})
	register(&propertyDef{
		id: "C17",
		explain: "Decides the callback clause only: (PQTX) Settings.Flushed / Settings.ACKed and the counters behind them are only touched after Commit()==nil of the one flush/ACK transaction; (CALLBACK-ARG) the callback's argument is the event count taken before the transaction, not the counter after its reset. Pending/Active/Available arithmetic is not decided. Added later (§8.7–8.9): COUNTER-SOURCES, EVENT-BOUNDARY, READ-START-AGREE; CALLBACK-ARG is location independent.",
		run: func(p *Program, rep *Report, tier string) {
			g(rep, "COUNTER-SOURCES", func() { ruleCOUNTERSOURCES(p, rep) })
			g(rep, "READ-START-AGREE", func() { ruleREADSTARTAGREE(p, rep) })
			g(rep, "PQTX", func() { rulePQTX(p, rep) })
			g(rep, "CALLBACK-ARG", func() { ruleCALLBACKARG(p, rep) })
			g(rep, "CALLBACK-LAST", func() { ruleCALLBACKLAST(p, rep) })
			g(rep, "EVENT-BOUNDARY", func() { ruleEVENTBOUNDARY(p, rep) })
		},
	})
	register(&propertyDef{
		id: "C18",
		explain: "Decides the path-lock protocol (LOCKS with the flock class at roots Open and File.Close): after vfs Lock succeeded every error exit of Open has released it (flag-guarded defers interpreted exactly), the lock-failed exit never held it, the success exit holds it; every exit of File.Close releases it; lock order flock < in-process locks. Not decided: flock(2) itself. Added later (§8.6–8.9): FLOCK-NO-UNLINK, FLOCK-QUIESCENT (unlock only in the quiescent section of Close), FLOCK-ACQUIRE (doLock keeps what it took).",
		run: func(p *Program, rep *Report, tier string) {
			g(rep, "LOCKS", func() { ruleLOCKS(p, rep, func(r lockRoot) bool { return r.name == "Open" || r.name == "File.Close" }, false) })
			g(rep, "FLOCK-OWNER", func() { ruleFLOCKOWNER(p, rep) })
			g(rep, "FLOCK-NO-UNLINK", func() { ruleFLOCKNOUNLINK(p, rep) })
			g(rep, "FLOCK-ACQUIRE", func() { ruleFLOCKACQUIRE(p, rep) })
		},
	})
}
