package main

import (
	"flag"
	"fmt"
	"os"
	"path/filepath"
	"sort"
	"strconv"
	"strings"
	"time"
)

// propertyDef: which rules decide (clauses of) a property.
type propertyDef struct {
	id      string
	explain string
	assume  []string
	run     func(p *Program, rep *Report, tier string)
}

var properties = map[string]*propertyDef{}

var debugRoot string
var debugVerbose bool

func register(d *propertyDef) { properties[d.id] = d }

var commonAssumptions = []string{
	"go/types, go/ssa (x/tools v0.29.0) and this analyzer are correct",
	"singleton abstraction: one File/Tx/Page/Queue/Reader/Writer object per scenario; objects are used as documented (one goroutine per Tx/Reader/Writer, no use of a File after Close)",
	"unsafe casts (bin.UnsafeCastStruct) and standard-library / third-party bodies are opaque; sync, sort, flock and vfs.File implementations honour their contracts",
	"test files are not analysed; the decided clauses are structural necessary conditions of the property, not the behaviour itself (level: other)",
}

func main() {
	prop := flag.String("prop", "", "property id (C01..C18)")
	tier := flag.String("tier", "quick", "quick|thorough")
	repo := flag.String("repo", "/repo", "repository root")
	verif := flag.String("verif", "/verif", "verif root (evidence, known findings)")
	evidence := flag.String("evidence", "", "evidence file (default <verif>/evidence/<prop>.json)")
	noEvidence := flag.Bool("no-evidence", false, "do not write the evidence file (self-test runs)")
	overlay := flag.String("overlay", "", "file=replacement[,file=replacement] overlay (self-test variants)")
	replay := flag.String("replay", "", "re-evaluate one obligation from a replay file")
	list := flag.Bool("list", false, "list properties")
	flag.StringVar(&debugRoot, "root", "", "debug: only engine-A roots whose name contains this")
	flag.BoolVar(&debugVerbose, "v", false, "debug: verbose")
	flag.IntVar(&interpBudget, "budget", 400000, "engine A: maximum number of function interpretations per root")
	flag.Parse()

	if *list {
		ids := []string{}
		for id := range properties {
			ids = append(ids, id)
		}
		sort.Strings(ids)
		for _, id := range ids {
			fmt.Println(id)
		}
		return
	}
	if *replay != "" {
		os.Exit(doReplay(*replay, *repo, *verif))
	}
	verifDir = *verif
	def, ok := properties[*prop]
	if !ok {
		fmt.Fprintf(os.Stderr, "unknown property %q\n", *prop)
		os.Exit(2)
	}
	seed := int64(0)
	if s := os.Getenv("VERIF_SEED"); s != "" {
		if n, err := strconv.ParseInt(s, 10, 64); err == nil {
			seed = n
		}
	}
	t0 := time.Now()

	ov := map[string][]byte{}
	if *overlay != "" {
		for _, kv := range strings.Split(*overlay, ",") {
			parts := strings.SplitN(kv, "=", 2)
			if len(parts) != 2 {
				fmt.Fprintln(os.Stderr, "bad -overlay")
				os.Exit(2)
			}
			b, err := os.ReadFile(parts[1])
			if err != nil {
				fmt.Fprintln(os.Stderr, err)
				os.Exit(2)
			}
			ov[filepath.Join(*repo, parts[0])] = b
		}
	}

	configs := [][2]string{{"", ""}}
	if *tier == "thorough" {
		configs = append(configs, [2]string{"linux", "386"}, [2]string{"darwin", "amd64"}, [2]string{"windows", "amd64"})
	}
	rep := newReport(def.id)
	var cfgNames []string
	for i, c := range configs {
		p, err := loadProgram(loadOpts{dir: *repo, goos: c[0], goarch: c[1], overlay: ov})
		if err != nil {
			fmt.Fprintf(os.Stderr, "cannot load %s (%s/%s): %v\n", *repo, c[0], c[1], err)
			fmt.Println("NO-VERDICT: repository does not load or type-check")
			os.Exit(2)
		}
		cfgNames = append(cfgNames, p.Config)
		if i > 0 {
			rep.config = p.Config
		}
		runProperty(def, p, rep, *tier)
	}
	known, err := loadKnown(filepath.Join(*verif, "known_findings.json"))
	if err != nil {
		fmt.Fprintln(os.Stderr, "known_findings.json:", err)
		os.Exit(2)
	}
	ev := *evidence
	if ev == "" {
		ev = filepath.Join(*verif, "evidence", def.id+".json")
	}
	if *noEvidence {
		ev = ""
	}
	code := rep.finish(finishOpts{
		tier: *tier, seed: seed, wall: time.Since(t0).Seconds(), evidence: ev,
		replayDir: filepath.Join(*verif, "evidence", "replay"), known: known,
		explain: def.explain, assume: append(append([]string{}, commonAssumptions...), def.assume...), configs: cfgNames,
		variants: loadVariantResults(),
	})
	os.Exit(code)
}

// runProperty runs the rules; a vocabulary miss or analysis panic becomes an undecided obligation.
func runProperty(def *propertyDef, p *Program, rep *Report, tier string) {
	defer func() {
		if e := recover(); e != nil {
			if vm, ok := e.(vocabMiss); ok {
				rep.Unknown("VOCABULARY", vm.what, "", vm.Error()+" — the rule that needs it cannot be decided")
				return
			}
			rep.Unknown("ANALYSIS", "panic", "", fmt.Sprintf("analysis panic: %v", e))
		}
	}()
	def.run(p, rep, tier)
}

// guard runs one rule so that a vocabulary miss only makes that rule undecided.
func guard(rep *Report, rule string, f func()) {
	defer func() {
		if e := recover(); e != nil {
			if vm, ok := e.(vocabMiss); ok {
				rep.Unknown(rule, "vocabulary|"+vm.what, "", vm.Error())
				return
			}
			if os.Getenv("TXLINT_DEBUG") != "" {
				panic(e)
			}
			rep.Unknown(rule, "analysis-panic", "", fmt.Sprintf("analysis panic: %v", e))
		}
	}()
	f()
}

func loadVariantResults() []VariantResult {
	path := os.Getenv("TXLINT_VARIANTS")
	if path == "" {
		return nil
	}
	return readVariantResults(path)
}

func doReplay(path, repo, verif string) int {
	b, err := os.ReadFile(path)
	if err != nil {
		fmt.Fprintln(os.Stderr, err)
		return 2
	}
	var r struct {
		Property   string     `json:"property"`
		Obligation Obligation `json:"obligation"`
	}
	if err := jsonUnmarshal(b, &r); err != nil {
		fmt.Fprintln(os.Stderr, err)
		return 2
	}
	def, ok := properties[r.Property]
	if !ok {
		fmt.Fprintln(os.Stderr, "unknown property in replay file")
		return 2
	}
	p, err := loadProgram(loadOpts{dir: repo})
	if err != nil {
		fmt.Fprintln(os.Stderr, err)
		return 2
	}
	rep := newReport(def.id)
	runProperty(def, p, rep, "quick")
	for _, o := range rep.obls {
		if o.Rule == r.Obligation.Rule && o.Key == r.Obligation.Key {
			fmt.Printf("%s %s [%s] %s: %s\n", strings.ToUpper(string(o.Verdict)), o.Rule, o.Key, o.Pos, o.Detail)
			for _, w := range o.Witness {
				fmt.Println("     ", w)
			}
			if o.Verdict == Discharged {
				return 0
			}
			return 1
		}
	}
	fmt.Printf("obligation %s [%s] no longer exists on the current tree (construct gone or violation repaired)\n", r.Obligation.Rule, r.Obligation.Key)
	return 0
}
