package main

// Engine C — role-sensitive lockset / guarded-by (DESIGN §2.3, C02.1, C09.3).

import (
	"fmt"
	"go/types"
	"sort"
	"strings"

	"golang.org/x/tools/go/ssa"
)

// lockConflicts: a write under a and an access under b cannot overlap in time.
var lockConflicts = map[[2]string]bool{
	{"exclusive", "shared"}: true, {"shared", "exclusive"}: true,
	{"reserved", "reserved"}: true, {"exclusive", "exclusive"}: true,
	{"mu", "mu"}: true, {"mux", "mux"}: true,
}

type accessRec struct {
	leaf  *types.Var
	name  string
	write bool
	held  []string
	role  string
	pos   string
	fn    string
}

// leafVars expands a field into the leaf (non-struct) fields it covers.
func leafVars(p *Program, f *types.Var, depth int, out map[*types.Var]bool) {
	if depth > 5 {
		out[f] = true
		return
	}
	st, ok := f.Type().Underlying().(*types.Struct)
	if !ok {
		out[f] = true
		return
	}
	if n, isNamed := f.Type().(*types.Named); isNamed && n.Obj().Pkg() != nil && n.Obj().Pkg().Path() != modPath {
		out[f] = true // sync.Mutex etc.: opaque
		return
	}
	for i := 0; i < st.NumFields(); i++ {
		leafVars(p, st.Field(i), depth+1, out)
	}
}

func isSyncObject(f *types.Var) bool {
	t := f.Type()
	if pt, ok := t.(*types.Pointer); ok {
		t = pt.Elem()
	}
	n, ok := t.(*types.Named)
	return ok && n.Obj().Pkg() != nil && (n.Obj().Pkg().Path() == "sync" || n.Obj().Pkg().Path() == "sync/atomic")
}

func ruleLOCKSET(p *Program, rep *Report) {
	rep.Rule("LOCKSET", 10, "every write to a field of the shared objects (File, lock, writer, waLog, allocator, allocArea, freelist) and every access of a potentially concurrent role hold a conflicting pair of locks ((Exclusive,Shared), (Reserved,Reserved), (Exclusive,Exclusive), (lock.mu,lock.mu), (writer.mux,writer.mux)); roles: reader tx, writer tx, File.Close, background writer")
	rep.Rule("SNAPSHOT-AT-BEGIN", 2, "newTx (which copies root and end marker) is called with the transaction lock held")
	voc := newLocksVocab(p)
	newTx := p.Func("txfile", "newTx")
	var recs []accessRec
	snapshots := 0
	roots := lockRootsTxfile(p)
	for _, r := range roots {
		if strings.Contains(r.name, "tx-finished") || r.role == "open" {
			continue
		}
		if debugRoot != "" && !strings.Contains(r.name, debugRoot) {
			continue
		}
		role := r.role
		if role == "begin" {
			switch r.name {
			case "File.BeginReadonly":
				role = "reader"
			case "File.Begin":
				role = "writer"
			default:
				continue
			}
		}
		pl := newLocksPlugin(voc, role)
		pl.record = true
		in := newInterp(p, pl)
		in.Relevant = voc.relevant
		// newTx must be observed: make it relevant
		rel := map[*ssa.Function]bool{}
		for k, v := range voc.relevant {
			rel[k] = v
		}
		for f := range reachesAny(p.CHA(), map[*ssa.Function]bool{newTx: true}) {
			rel[f] = true
		}
		for f := range sharedTouchers(p) {
			rel[f] = true
		}
		in.Relevant = rel
		pl.onNewTx = func(in *Interp, fs *FState, site ssa.Instruction) {
			snapshots++
			if txLockTotal(lp(fs)) < 1 {
				in.report("SNAPSHOT", site, "newTx called without the transaction lock held: the snapshot (root, end marker, meta page) can be taken while a commit is switching state")
			}
		}
		pl.newTx = newTx
		prop := newLockProp()
		for k, v := range r.init {
			prop.n[k] = v
		}
		st := newState(prop)
		if r.sc != nil {
			in.applyScenario(st, *r.sc)
		}
		var recv Value
		if r.recv != "" {
			recv = PtrV{cell: in.singleton(p.Named("txfile", r.recv))}
		}
		failed := ""
		func() {
			defer func() {
				if e := recover(); e != nil {
					failed = fmt.Sprintf("%v", e)
				}
			}()
			in.Run(r.fn, recvArgs(in, r.fn, recv), st)
			failed = in.failed
		}()
		rep.Analysed(in.enteredNames()...)
		if failed != "" {
			rep.Unknown("LOCKSET", "root|"+r.name, "", "analysis did not complete: "+failed)
			continue
		}
		for _, ar := range in.reports {
			if ar.Kind == "SNAPSHOT" {
				rep.Bad("SNAPSHOT-AT-BEGIN", ar.Fn+"|newTx", ar.Pos, ar.Msg, "root "+r.name)
			}
		}
		txl := map[string]string{"reader": "shared", "writer": "reserved"}[role]
		for _, a := range pl.accesses {
			held := []string{}
			for _, h := range a.Held {
				if h == "txlock" && txl != "" {
					h = txl
				}
				held = append(held, h)
			}
			leaves := map[*types.Var]bool{}
			if a.fvar != nil {
				leafVars(p, a.fvar, 0, leaves)
			}
			for lf := range leaves {
				if isSyncObject(lf) {
					continue
				}
				owner := fieldOwner(p, lf)
				if a.ByType && !sharedOwners[owner] {
					continue
				}
				recs = append(recs, accessRec{leaf: lf, name: owner + "." + lf.Name(), write: a.Write, held: held, role: role, pos: a.Pos, fn: a.Fn})
			}
		}
	}
	if snapshots > 0 {
		if rs := rep.rules["SNAPSHOT-AT-BEGIN"]; rs != nil {
			rep.OK("SNAPSHOT-AT-BEGIN", "beginTx|newTx", "", fmt.Sprintf("%d snapshot site(s) evaluated with the transaction lock held", snapshots))
			rep.OK("SNAPSHOT-AT-BEGIN", "roles", "", "reader and writer Begin roots")
		}
	}
	// group by leaf
	byLeaf := map[*types.Var][]accessRec{}
	for _, r := range recs {
		byLeaf[r.leaf] = append(byLeaf[r.leaf], r)
	}
	var leaves []*types.Var
	for l := range byLeaf {
		leaves = append(leaves, l)
	}
	sort.Slice(leaves, func(i, j int) bool {
		a, b := byLeaf[leaves[i]][0].name, byLeaf[leaves[j]][0].name
		return a < b
	})
	concurrent := func(a, b string) bool {
		if a == "writer" && b == "writer" {
			return false // the same writer transaction (one goroutine); two writers are excluded by Reserved, checked through the held sets of Begin
		}
		if a == "close" && b == "close" {
			return false
		}
		if a == "bgwriter" && b == "bgwriter" {
			return false
		}
		return true
	}
	for _, l := range leaves {
		as := byLeaf[l]
		name := as[0].name
		hasWrite := false
		bad := false
		for _, w := range as {
			if !w.write {
				continue
			}
			hasWrite = true
			for _, x := range as {
				if !concurrent(w.role, x.role) {
					continue
				}
				safe := false
				for _, la := range w.held {
					for _, lb := range x.held {
						if lockConflicts[[2]string{la, lb}] {
							safe = true
						}
					}
				}
				if safe {
					continue
				}
				bad = true
				kind := "read"
				if x.write {
					kind = "write"
				}
				rep.Bad("LOCKSET", fmt.Sprintf("%s|%s-write{%s} vs %s-%s{%s}", name, w.role, strings.Join(w.held, ","), x.role, kind, strings.Join(x.held, ",")), w.pos,
					fmt.Sprintf("data race on %s: written by the %s role in %s holding {%s}, %s by the %s role in %s holding {%s} — no conflicting lock pair", name, w.role, w.fn, strings.Join(w.held, ","), map[bool]string{true: "written", false: "read"}[x.write], x.role, x.fn, strings.Join(x.held, ",")),
					"write at "+w.pos+" in "+w.fn, kind+" at "+x.pos+" in "+x.fn)
			}
		}
		if hasWrite && !bad {
			rep.OK("LOCKSET", name, "", fmt.Sprintf("%d access(es), every write/access pair of concurrent roles holds a conflicting lock pair", len(as)))
		}
	}
}

// sharedTouchers: functions that (through static calls and the closures / method values they create)
// load or store a field of a shared object.  In LOCKSET runs they are always entered, so that every
// shared access is attributed object- and role-sensitively; what is skipped touches no shared field.
func sharedTouchers(p *Program) map[*ssa.Function]bool {
	if p.sharedTouch != nil {
		return p.sharedTouch
	}
	eff := p.Effects()
	direct := map[*ssa.Function]bool{}
	for fn, d := range eff.direct {
		for f := range d.mods {
			if sharedOwners[fieldOwner(p, f)] {
				direct[fn] = true
			}
		}
		for f := range d.refs {
			if sharedOwners[fieldOwner(p, f)] {
				direct[fn] = true
			}
		}
	}
	out := map[*ssa.Function]bool{}
	for fn := range eff.direct {
		for g := range staticReach(p, fn) {
			if direct[g] {
				out[fn] = true
				break
			}
		}
	}
	p.sharedTouch = out
	return out
}
