package main

// Header rules (DESIGN §3 C16, C01.5): VALIDATE, VALIDATE-COMPLETE, CHECKSUM-COVERAGE, NO-PANIC-ON-INPUT.

import (
	"fmt"
	"go/constant"
	"go/token"
	"go/types"
	"sort"
	"strings"

	"golang.org/x/tools/go/ssa"
)

// ---- VALIDATE: typestate of header values read from disk at open time ----

type validateProp struct {
	valid    map[int]int // metaPage cell id -> symbol of its Validate() result
	returned int         // cell id of the header copied into the result (0 none)
}

func (v *validateProp) Key() string {
	ks := make([]string, 0, len(v.valid))
	for k, s := range v.valid {
		ks = append(ks, fmt.Sprintf("%d:%d", k, s))
	}
	sort.Strings(ks)
	return strings.Join(ks, ",") + fmt.Sprintf("/%d", v.returned)
}
func (v *validateProp) Clone() PropState {
	n := &validateProp{valid: make(map[int]int, len(v.valid)), returned: v.returned}
	for k, s := range v.valid {
		n.valid[k] = s
	}
	return n
}

type validatePlugin struct {
	basePlugin
	validate *ssa.Function
	metaPage *types.Named
	checks   int
	exempt   map[*ssa.Function]bool
}

// diskHeaderCell: the metaPage-typed cell (or an ancestor) that holds a header read from disk in a local.
func (v *validatePlugin) diskHeaderCell(c *Cell) *Cell {
	for x := c; x != nil; x = x.parent {
		if n, ok := x.typ.(*types.Named); ok && n.Obj() == v.metaPage.Obj() {
			if x.root().local {
				return x
			}
			return nil
		}
	}
	return nil
}

func (v *validatePlugin) OnCall(in *Interp, fs *FState, site ssa.Instruction, callee *ssa.Function, fnv Value, args []Value) (bool, Value) {
	if callee == nil {
		return false, nil
	}
	vp := fs.st.prop.(*validateProp)
	if callee == v.validate {
		r := in.top()
		if pv, ok := args[0].(PtrV); ok {
			if hc := v.diskHeaderCell(pv.cell); hc != nil {
				vp.valid[hc.id] = r.(Top).sym
			}
		}
		return true, r
	}
	if callee.Name() == "Get" && len(args) > 0 && !v.exempt[site.Parent()] {
		if pv, ok := args[0].(PtrV); ok && pv.cell.parent != nil {
			if hc := v.diskHeaderCell(pv.cell.parent); hc != nil && hc != pv.cell {
				v.checks++
				s, seen := vp.valid[hc.id]
				if !seen || fs.st.nilF[s] != 1 {
					in.report("VALIDATE", site, "field "+pv.cell.key+" of a header read from disk is used before that header is known to be valid (Validate() == nil)")
				}
			}
		}
	}
	return false, nil
}

// a whole-header copy carries the validation state of its source
func (v *validatePlugin) OnStore(in *Interp, fs *FState, instr ssa.Instruction, c *Cell, val Value) {
	n, ok := c.typ.(*types.Named)
	if !ok || n.Obj() != v.metaPage.Obj() {
		return
	}
	vp := fs.st.prop.(*validateProp)
	delete(vp.valid, c.id)
	if sv, ok := val.(StructV); ok && sv.src != 0 {
		if s, ok := vp.valid[sv.src]; ok {
			vp.valid[c.id] = s
		}
	}
}

func ruleVALIDATE(p *Program, rep *Report) {
	rep.Rule("VALIDATE", 2, "in readValidMeta no field of a header read from disk is used before that header's Validate() returned nil, and the header returned with a nil error is a validated one")
	fn := p.Func("txfile", "readValidMeta")
	pl := &validatePlugin{validate: p.Method("txfile", "metaPage", "Validate"), metaPage: p.Named("txfile", "metaPage"),
		exempt: map[*ssa.Function]bool{}}
	for f := range staticReach(p, pl.validate) {
		pl.exempt[f] = true
	}
	in := newInterp(p, pl)
	var exits []Exit
	failed := ""
	func() {
		defer func() {
			if e := recover(); e != nil {
				failed = fmt.Sprintf("%v", e)
			}
		}()
		exits = in.Run(fn, make([]Value, len(fn.Params)), newState(&validateProp{valid: map[int]int{}}))
		failed = in.failed
	}()
	rep.Analysed(in.enteredNames()...)
	pos := p.Pos(fn.Pos())
	if failed != "" || len(exits) == 0 {
		rep.Unknown("VALIDATE", "readValidMeta", pos, "analysis did not complete: "+failed)
		return
	}
	bad := false
	for _, ar := range in.reports {
		if ar.Kind == "VALIDATE" {
			bad = true
			rep.Bad("VALIDATE", "readValidMeta|"+ar.Fn+"|"+ar.Msg, ar.Pos, ar.Msg+": a damaged header can decide where or how the other header is read", "via "+strings.Join(ar.Chain, ">"))
		}
	}
	okExits := 0
	for _, e := range exits {
		if errOfExit(fn, e) == 2 {
			continue
		}
		okExits++
		vp := e.st.prop.(*validateProp)
		src := 0
		if tv, ok := e.ret.(TupleV); ok && len(tv.elems) > 0 {
			if sv, ok := tv.elems[0].(StructV); ok {
				src = sv.src
			}
		}
		s, seen := vp.valid[src]
		if src == 0 && len(vp.valid) >= 2 {
			// the returned element is selected by a non-constant index: every candidate must be validated
			allValid := true
			for _, vs := range vp.valid {
				if e.st.nilF[vs] != 1 {
					allValid = false
				}
			}
			if allValid {
				continue
			}
		}
		if src == 0 || !seen || e.st.nilF[s] != 1 {
			bad = true
			rep.Bad("VALIDATE", "readValidMeta|returns-unvalidated", pos, "readValidMeta can return, with a nil error, a header that is not known to have passed Validate(): a damaged header wins")
		}
	}
	if okExits == 0 {
		bad = true
		rep.Bad("VALIDATE", "readValidMeta|no-success-exit", pos, "readValidMeta has no exit with a nil error")
	}
	if pl.checks == 0 {
		rep.Unknown("VALIDATE", "readValidMeta|anchor", pos, "no header field access was observed in readValidMeta (anchor lost)")
	}
	if !bad {
		rep.OK("VALIDATE", "readValidMeta", pos, fmt.Sprintf("%d header field access(es) all on validated headers; %d success exit class(es) return a validated header", pl.checks, okExits))
		rep.OK("VALIDATE", "readValidMeta|success-exits", pos, "")
	}
}

// ---- VALIDATE-COMPLETE ----

func ruleVALIDATECOMPLETE(p *Program, rep *Report) {
	rep.Rule("VALIDATE-COMPLETE", 3, "metaPage.Validate returns nil only on paths that passed the equality edge of the magic, the version and the checksum comparison (checksum compared with computeChecksum())")
	fn := p.Method("txfile", "metaPage", "Validate")
	compute := p.Method("txfile", "metaPage", "computeChecksum")
	rep.Analysed(funcName(fn), funcName(compute))
	for _, field := range []string{"magic", "version", "checksum"} {
		fv := p.FieldVar("txfile", "metaPage", field)
		blockedEdges := map[cfgEdge]bool{}
		found := false
		for _, b := range fn.Blocks {
			ifi, ok := b.Instrs[len(b.Instrs)-1].(*ssa.If)
			if !ok {
				continue
			}
			for _, pol := range []bool{true, false} {
				d := condDNF(ifi.Cond, pol, 0, map[ssa.Value]bool{})
				if len(d) != 1 || len(d[0]) != 1 {
					continue
				}
				op, x, y, ok := cmpAtom(d[0][0])
				if !ok || op != token.EQL {
					continue
				}
				isGet := func(v ssa.Value) bool {
					c, ok := stripConv(v).(*ssa.Call)
					return ok && c.Common().StaticCallee() != nil && c.Common().StaticCallee().Name() == "Get" && recvField(c) == fv
				}
				other := func(v ssa.Value) bool {
					if field == "checksum" {
						return callTo(v, compute) != nil
					}
					_, isConst := stripConv(v).(*ssa.Const)
					return isConst
				}
				if (isGet(x) && other(y)) || (isGet(y) && other(x)) {
					found = true
					succ := b.Succs[1]
					if pol {
						succ = b.Succs[0]
					}
					blockedEdges[cfgEdge{b, succ}] = true
				}
			}
		}
		key := "metaPage.Validate|" + field
		if !found {
			rep.Bad("VALIDATE-COMPLETE", key, p.Pos(fn.Pos()), "Validate no longer compares the header's "+field+" field"+map[bool]string{true: " with computeChecksum()", false: " with its expected constant"}[field == "checksum"])
			continue
		}
		reach := reachableAvoiding(fn.Blocks[0], nil, blockedEdges)
		leak := false
		for _, b := range fn.Blocks {
			if r, ok := b.Instrs[len(b.Instrs)-1].(*ssa.Return); ok && returnsNilError(r) && reach[b] {
				leak = true
			}
		}
		if leak {
			rep.Bad("VALIDATE-COMPLETE", key, p.Pos(fn.Pos()), "Validate can return nil on a path that did not pass the "+field+" comparison: a damaged header is accepted")
		} else {
			rep.OK("VALIDATE-COMPLETE", key, p.Pos(fn.Pos()), "every nil return passes the equality edge")
		}
	}
}

// ---- CHECKSUM-COVERAGE (go/types) ----

func ruleCHECKSUMCOVERAGE(p *Program, rep *Report) {
	rep.Rule("CHECKSUM-COVERAGE", 3, "checksum is the last field of metaPage, the struct is packed, and the byte array hashed by computeChecksum covers exactly the bytes before it")
	st := p.Struct("txfile", "metaPage")
	sizes := types.SizesFor("gc", "amd64")
	var fields []*types.Var
	for i := 0; i < st.NumFields(); i++ {
		fields = append(fields, st.Field(i))
	}
	offs := sizes.Offsetsof(fields)
	last := fields[len(fields)-1]
	pos := p.Pos(last.Pos())
	if last.Name() != "checksum" {
		rep.Bad("CHECKSUM-COVERAGE", "metaPage|checksum-last", pos, "checksum is not the last field of metaPage: the fields after it are not covered by the checksum")
	} else {
		rep.OK("CHECKSUM-COVERAGE", "metaPage|checksum-last", pos, "")
	}
	// packed: offset == sum of preceding sizes
	var sum int64
	packed := true
	for i, f := range fields {
		if offs[i] != sum {
			packed = false
		}
		sum += sizes.Sizeof(f.Type())
	}
	if packed {
		rep.OK("CHECKSUM-COVERAGE", "metaPage|packed", pos, fmt.Sprintf("%d fields, %d bytes, no padding", len(fields), sum))
	} else {
		rep.Bad("CHECKSUM-COVERAGE", "metaPage|packed", pos, "metaPage has padding: raw-byte checksum and on-disk layout no longer agree")
	}
	var csOff int64 = -1
	for i, f := range fields {
		if f.Name() == "checksum" {
			csOff = offs[i]
		}
	}
	// byte range handed to the hash in computeChecksum: every Write on the hash gets a slice of a byte array
	// laid over the header; the constant bounds of those slices must add up to exactly [0, offset of checksum).
	compute := p.Method("txfile", "metaPage", "computeChecksum")
	rep.Analysed(funcName(compute))
	type rng struct{ lo, hi int64 }
	var ranges []rng
	undecided := ""
	reach := staticReach(p, compute)
	// a []byte handed to the hash: a constant-bounded slice of a byte array, or a parameter that every call
	// site inside the checksum computation feeds with one
	var resolve func(v ssa.Value, depth int) ([]rng, bool)
	resolve = func(v ssa.Value, depth int) ([]rng, bool) {
		if lo, hi, ok := constByteRange(v); ok {
			return []rng{{lo, hi}}, true
		}
		if par, ok := v.(*ssa.Parameter); ok && depth < 3 {
			pi := paramIndex(par.Parent(), par)
			var out []rng
			n := 0
			for _, site := range p.callIndex().sites[par.Parent()] {
				if !reach[site.Parent()] {
					continue
				}
				n++
				if pi < 0 || pi >= len(site.Common().Args) {
					return nil, false
				}
				r, ok := resolve(site.Common().Args[pi], depth+1)
				if !ok {
					return nil, false
				}
				out = append(out, r...)
			}
			return out, n > 0
		}
		return nil, false
	}
	for _, f := range sortedFns(reach) {
		if fnPkgPath(f) != modPath {
			continue
		}
		for _, b := range f.Blocks {
			for _, ins := range b.Instrs {
				c, ok := ins.(ssa.CallInstruction)
				if !ok {
					continue
				}
				name := ""
				if c.Common().IsInvoke() {
					name = c.Common().Method.Name()
				} else if cal := c.Common().StaticCallee(); cal != nil && cal.Signature.Recv() != nil {
					name = cal.Name()
				}
				if name != "Write" || len(c.Common().Args) == 0 {
					continue
				}
				rep.Analysed(funcName(f))
				arg := c.Common().Args[len(c.Common().Args)-1]
				rs, ok := resolve(arg, 0)
				if !ok {
					undecided = "the bytes handed to the hash at " + p.InstrPos(ins) + " are not a constant-bounded slice of a byte array"
					continue
				}
				ranges = append(ranges, rs...)
			}
		}
	}
	cpos := p.Pos(compute.Pos())
	if len(ranges) == 0 && undecided == "" {
		rep.Unknown("CHECKSUM-COVERAGE", "computeChecksum|hashed-length", cpos, "no Write on a hash found in computeChecksum (anchor lost)")
		return
	}
	if undecided != "" {
		rep.Unknown("CHECKSUM-COVERAGE", "computeChecksum|hashed-length", cpos, undecided)
		return
	}
	sort.Slice(ranges, func(i, j int) bool { return ranges[i].lo < ranges[j].lo })
	var covered int64
	var desc []string
	for _, r := range ranges {
		desc = append(desc, fmt.Sprintf("[%d,%d)", r.lo, r.hi))
		if r.lo <= covered && r.hi > covered {
			covered = r.hi
		}
	}
	if covered == csOff && csOff == sum-sizes.Sizeof(last.Type()) && ranges[len(ranges)-1].hi <= csOff {
		rep.OK("CHECKSUM-COVERAGE", "computeChecksum|hashed-length", cpos, fmt.Sprintf("hashes bytes %s = everything before the checksum field (offset %d)", strings.Join(desc, ","), csOff))
	} else {
		rep.Bad("CHECKSUM-COVERAGE", "computeChecksum|hashed-length", cpos, fmt.Sprintf("computeChecksum hashes header bytes %s but the checksum field starts at offset %d: the hashed range must be exactly [0,%d) — bytes outside it are not protected (or the checksum hashes itself)", strings.Join(desc, ","), csOff, csOff))
	}
}

// constByteRange resolves a []byte value to the constant byte range [lo,hi) of the array it slices.
func constByteRange(v ssa.Value) (lo, hi int64, ok bool) {
	sl, isSl := v.(*ssa.Slice)
	if !isSl {
		return 0, 0, false
	}
	t := sl.X.Type()
	if pt, isP := t.Underlying().(*types.Pointer); isP {
		t = pt.Elem()
	}
	at, isA := t.Underlying().(*types.Array)
	if !isA {
		// re-slice of a slice: compose
		l0, h0, ok0 := constByteRange(sl.X)
		if !ok0 {
			return 0, 0, false
		}
		lo, hi = l0, h0
		if sl.Low != nil {
			c, isC := constIntOf(sl.Low)
			if !isC {
				return 0, 0, false
			}
			lo = l0 + c
		}
		if sl.High != nil {
			c, isC := constIntOf(sl.High)
			if !isC {
				return 0, 0, false
			}
			hi = l0 + c
		}
		return lo, hi, lo <= hi && hi <= h0
	}
	if bt, isB := at.Elem().Underlying().(*types.Basic); !isB || bt.Kind() != types.Uint8 {
		return 0, 0, false
	}
	lo, hi = 0, at.Len()
	if sl.Low != nil {
		c, isC := constIntOf(sl.Low)
		if !isC {
			return 0, 0, false
		}
		lo = c
	}
	if sl.High != nil {
		c, isC := constIntOf(sl.High)
		if !isC {
			return 0, 0, false
		}
		hi = c
	}
	return lo, hi, lo <= hi
}

func constIntOf(v ssa.Value) (int64, bool) {
	v = stripConv(v)
	if c, ok := v.(*ssa.Const); ok && c.Value != nil && c.Value.Kind() == constant.Int {
		return constant.Int64Val(c.Value)
	}
	return 0, false
}

// ---- NO-PANIC-ON-INPUT ----

func ruleNOPANICONINPUT(p *Program, rep *Report) {
	rep.Rule("NO-PANIC-ON-INPUT", 3, "no explicit panic is reachable in the functions that consume header bytes at open time (readValidMeta and everything it calls)")
	root := p.Func("txfile", "readValidMeta")
	fns := sortedFns(staticReach(p, root))
	for _, fn := range fns {
		if fnPkgPath(fn) != modPath {
			continue
		}
		rep.Analysed(funcName(fn))
		n := 0
		for _, b := range fn.Blocks {
			for _, ins := range b.Instrs {
				if pi, ok := ins.(*ssa.Panic); ok {
					n++
					rep.Bad("NO-PANIC-ON-INPUT", funcName(fn)+"|panic", p.InstrPos(pi), "explicit panic in "+funcName(fn)+", which consumes header bytes read from disk: a damaged or crafted header makes Open panic instead of falling back or returning an error")
				}
			}
		}
		if n == 0 {
			rep.OK("NO-PANIC-ON-INPUT", funcName(fn), p.Pos(fn.Pos()), "no explicit panic")
		}
	}
}
