package main

// ORDER / SLOT / COMMITPOINT / COMMIT-ERROR-PATH / ROLLBACK / FINALIZE plug-in of engine A
// (DESIGN §3 C01.1, C07.3, C08.2, C08.3, C14.2, C16.4, C02.4).
//
// Commit protocol automaton over the interprocedural event trace:
//   dirty --Sync--> clean --Schedule(header slot)--> hdr --Sync--> hdrSynced --Wait()==nil--> durable
// in-memory SWITCH events (File.metaActive=, waLog.Commit, allocator.Commit, allocator.maxPages/maxSize=)
// are only allowed in durable.

import (
	"fmt"
	"go/constant"
	"go/types"

	"golang.org/x/tools/go/ssa"
)

type orderProp struct {
	st        string // dirty|clean|hdr|hdrSynced
	waitSym   int    // symbol of the Wait() result that followed the header sync
	slot      int    // header slot written (-1 none, -2 unknown slot derived from File.metaActive)
	switched  bool   // an in-memory switch happened since BEGIN
	rollbacks int    // allocator rollbacks since root entry (saturates at 2)
	unwaited  bool   // writer operations issued since the last Wait
	stickyErr bool   // writes/syncs issued since the last sync that carried syncResetErr
	lastWait  int    // symbol of the most recent Wait() result (0 none)
	finalized bool   // header buffer finalized (checksum set) and not modified since
	hdrWrites int    // header writes since BEGIN (saturates at 2)
	inTx      bool   // BEGIN (newTx) seen or root is a Tx method
	inFlight  bool   // a header buffer was handed to the writer and not yet waited for
}

func (p *orderProp) Key() string {
	return fmt.Sprintf("%s/%d/%d/%v/%d/%v/%v/%d/%v/%d/%v", p.st, p.waitSym, p.slot, p.switched, p.rollbacks, p.unwaited, p.stickyErr, p.lastWait, p.finalized, p.hdrWrites, p.inFlight)
}
func (p *orderProp) Clone() PropState { c := *p; return &c }

type orderVocab struct {
	schedule, syncFn, wait *ssa.Function
	walCommit, allocCommit *ssa.Function
	allocRollback          *ssa.Function
	newTx                  *ssa.Function
	fileInit               *ssa.Function
	finalize, metaInit     *ssa.Function
	writeAt, initNewFile   *ssa.Function
	metaActive             *types.Var
	maxPages, maxSize      *types.Var
	metaPage               *types.Named
	resetErrBit            int64
	loaders                map[*ssa.Function]bool // open-time loaders allowed to assign the switch fields
	relevant               map[*ssa.Function]bool
	lockFns                map[*ssa.Function]bool
}

func newOrderVocab(p *Program) *orderVocab {
	v := &orderVocab{
		schedule:      p.Method("txfile", "writer", "Schedule"),
		syncFn:        p.Method("txfile", "writer", "Sync"),
		wait:          p.Method("txfile", "txWriteSync", "Wait"),
		walCommit:     p.Method("txfile", "waLog", "Commit"),
		allocCommit:   p.Method("txfile", "allocator", "Commit"),
		allocRollback: p.Method("txfile", "allocator", "Rollback"),
		newTx:         p.Func("txfile", "newTx"),
		fileInit:      p.Method("txfile", "File", "init"),
		finalize:      p.Method("txfile", "metaPage", "Finalize"),
		metaInit:      p.Method("txfile", "metaPage", "Init"),
		writeAt:       p.Func("txfile", "writeAt"),
		initNewFile:   p.Func("txfile", "initNewFile"),
		metaActive:    p.FieldVar("txfile", "File", "metaActive"),
		maxPages:      p.FieldVar("txfile", "allocator", "maxPages"),
		maxSize:       p.FieldVar("txfile", "allocator", "maxSize"),
		metaPage:      p.Named("txfile", "metaPage"),
		loaders:       map[*ssa.Function]bool{},
		lockFns:       map[*ssa.Function]bool{},
	}
	c := p.Tx.Const("syncResetErr")
	if c == nil {
		panic(vocabMiss{"txfile.syncResetErr"})
	}
	n, _ := constant.Int64Val(c.Value.Value)
	v.resetErrBit = n
	v.loaders[v.fileInit] = true
	v.loaders[p.Func("txfile", "readAllocatorState")] = true
	v.loaders[p.Func("txfile", "newFile")] = true
	for _, c := range []string{"shared", "reserved", "pending", "exclusive"} {
		v.lockFns[p.Method("txfile", c+"Lock", "Lock")] = true
		v.lockFns[p.Method("txfile", c+"Lock", "Unlock")] = true
	}
	seeds := map[*ssa.Function]bool{v.schedule: true, v.syncFn: true, v.wait: true, v.walCommit: true, v.allocCommit: true,
		v.allocRollback: true, v.newTx: true, v.finalize: true, v.metaInit: true, v.initNewFile: true}
	for fn := range p.funcsTouching(map[*types.Var]bool{v.metaActive: true, v.maxPages: true, v.maxSize: true}, true) {
		seeds[fn] = true
	}
	// functions that call a setter on a metaPage field
	for _, fn := range p.SrcFuncs() {
		for _, b := range fn.Blocks {
			for _, ins := range b.Instrs {
				if c, ok := ins.(ssa.CallInstruction); ok && v.isMetaFieldSet(c) {
					seeds[fn] = true
				}
			}
		}
	}
	v.relevant = withFuncRefs(p, p.CHA(), reachesAny(p.CHA(), seeds))
	return v
}

// isMetaFieldSet: a call x.f.Set(...) where x is a *metaPage.
func (v *orderVocab) isMetaFieldSet(c ssa.CallInstruction) bool {
	cc := c.Common()
	if cc.IsInvoke() || len(cc.Args) == 0 {
		return false
	}
	callee := cc.StaticCallee()
	if callee == nil || callee.Name() != "Set" {
		return false
	}
	fa, ok := cc.Args[0].(*ssa.FieldAddr)
	if !ok {
		// pgID.Set goes through access(): receiver may be a ChangeType of the FieldAddr
		if ct, ok2 := cc.Args[0].(*ssa.ChangeType); ok2 {
			fa, ok = ct.X.(*ssa.FieldAddr)
		}
		if !ok {
			return false
		}
	}
	n := namedOf(fa.X.Type())
	return n != nil && n.Obj() == v.metaPage.Obj()
}

type orderPlugin struct {
	basePlugin
	voc       *orderVocab
	active    int  // Γ: File.metaActive (-1 unknown)
	readonly  bool // reader role: no event may happen
	mayCommit bool // root is allowed to write a header / switch
	events    map[string]int
}

func newOrderPlugin(v *orderVocab, active int) *orderPlugin {
	return &orderPlugin{voc: v, active: active, events: map[string]int{}}
}

func op(fs *FState) *orderProp { return fs.st.prop.(*orderProp) }

// effective state: hdrSynced + wait result known nil => durable
func (o *orderPlugin) eff(fs *FState) string {
	p := op(fs)
	if p.st == "hdrSynced" && p.waitSym != 0 && fs.st.nilF[p.waitSym] == 1 {
		return "durable"
	}
	return p.st
}

// derivesFromField: v is computed (through conversions and arithmetic) from a load of the given field.
func derivesFromField(v ssa.Value, f *types.Var, depth int) bool {
	if depth > 8 {
		return false
	}
	switch x := v.(type) {
	case *ssa.Convert:
		return derivesFromField(x.X, f, depth+1)
	case *ssa.ChangeType:
		return derivesFromField(x.X, f, depth+1)
	case *ssa.BinOp:
		return derivesFromField(x.X, f, depth+1) || derivesFromField(x.Y, f, depth+1)
	case *ssa.UnOp:
		if x.Op.String() == "*" {
			if fa, ok := x.X.(*ssa.FieldAddr); ok {
				return fieldOfAddr(fa) == f
			}
			return false
		}
		return derivesFromField(x.X, f, depth+1)
	case *ssa.Phi:
		for _, e := range x.Edges {
			if derivesFromField(e, f, depth+1) {
				return true
			}
		}
	}
	return false
}

func (o *orderPlugin) switchEvent(in *Interp, fs *FState, site ssa.Instruction, what string) {
	p := op(fs)
	o.events["switch"]++
	if o.readonly {
		in.report("READER-PASSIVE", site, "in-memory switch ("+what+") reachable from a read-only transaction")
	}
	if !o.mayCommit {
		in.report("WHO-MAY-SWITCH", site, "in-memory switch ("+what+") outside a commit routine (Tx.Commit / open-time init transaction)")
	}
	if e := o.eff(fs); e != "durable" {
		in.report("ORDER", site, "in-memory switch ("+what+") in state "+e+": the new header is not known to be durable (header write, sync and a successful Wait must precede it)")
	}
	p.switched = true
}

func (o *orderPlugin) OnCall(in *Interp, fs *FState, site ssa.Instruction, callee *ssa.Function, fnv Value, args []Value) (bool, Value) {
	if callee == nil {
		return false, nil
	}
	p := op(fs)
	v := o.voc
	if v.lockFns[callee] {
		return true, Top{}
	}
	switch callee {
	case v.schedule:
		o.events["schedule"]++
		if o.readonly {
			in.report("READER-PASSIVE", site, "page write scheduled from a read-only transaction")
		}
		p.unwaited, p.stickyErr = true, true
		id := args[2]
		isHdr, slot := false, -2
		if n, ok := asConstInt(id); ok && (n == 0 || n == 1) {
			isHdr, slot = true, int(n)
		} else if in.Tainted(id) {
			isHdr = true // slot computed from File.metaActive (value provenance, survives helper extraction)
		} else if c, ok := site.(ssa.CallInstruction); ok && len(c.Common().Args) > 2 && derivesFromField(c.Common().Args[2], v.metaActive, 0) {
			isHdr = true
		}
		if isHdr {
			o.events["header"]++
			if !o.mayCommit {
				in.report("WHO-MAY-SWITCH", site, "file header written outside a commit routine")
			}
			if e := o.eff(fs); e != "clean" {
				in.report("ORDER", site, "header write in state "+e+": page writes of this transaction are not synced before the header is published")
			}
			if !p.finalized {
				in.report("FINALIZE", site, "header scheduled for writing without Finalize() (checksum) after its last field update")
			}
			if slot >= 0 && o.active >= 0 && slot == o.active {
				in.report("SLOT", site, fmt.Sprintf("header written to the ACTIVE slot %d (the only valid committed header would be overwritten in place)", slot))
			}
			if slot == -2 && o.active >= 0 {
				in.report("SLOT", site, "header slot does not fold to a constant under a known active slot")
			}
			p.st, p.slot, p.waitSym = "hdr", slot, 0
			p.finalized = false
			p.inFlight = true
			if p.hdrWrites < 2 {
				p.hdrWrites++
			}
			return true, Top{}
		}
		if p.st == "hdr" || p.st == "hdrSynced" {
			in.report("ORDER", site, "page write after the header write of the same commit (state "+p.st+")")
		}
		p.st = "dirty"
		return true, Top{}
	case v.syncFn:
		o.events["sync"]++
		if n, ok := asConstInt(args[2]); ok && n&v.resetErrBit != 0 && p.st == "dirty" && p.unwaited {
			in.report("STICKY-BARRIER", site, "the sync between the page writes and the header write carries syncResetErr: the writer forgets a failed page write, the header is written and the commit succeeds although a page it references never reached the file")
		}
		p.unwaited = true
		if n, ok := asConstInt(args[2]); ok {
			if n&v.resetErrBit != 0 {
				p.stickyErr = false
			} else {
				p.stickyErr = true
			}
		} else {
			p.stickyErr = true
		}
		switch p.st {
		case "dirty":
			p.st = "clean"
		case "hdr":
			p.st = "hdrSynced"
			p.waitSym = 0
		}
		return true, Top{}
	case v.wait:
		o.events["wait"]++
		if !p.unwaited && p.lastWait != 0 {
			// nothing was handed to the writer since the previous Wait: it returns the same stored error
			return true, Top{p.lastWait}
		}
		r := in.top()
		p.unwaited = false
		p.inFlight = false
		p.lastWait = r.(Top).sym
		if p.st == "hdrSynced" {
			p.waitSym = r.(Top).sym
		}
		return true, r
	case v.walCommit, v.allocCommit:
		o.switchEvent(in, fs, site, funcName(callee))
		return false, nil
	case v.allocRollback:
		o.events["rollback"]++
		if p.switched {
			in.report("COMMITPOINT", site, "allocator rollback after the in-memory switch: undo applied on top of the committed state")
		}
		if p.rollbacks < 2 {
			p.rollbacks++
		}
		return false, nil
	case v.newTx:
		o.events["begin"]++
		*p = orderProp{st: "clean", slot: -1, rollbacks: p.rollbacks, inTx: true}
		return false, nil
	case v.finalize:
		// Finalize computes and stores the checksum: the buffer is consistent from here on
		o.events["finalize"]++
		p.finalized = true
		return true, Top{}
	case v.metaInit:
		p.finalized = false
		return false, nil
	case v.writeAt:
		if site.Parent() == v.initNewFile {
			o.events["create-write"]++
			if !p.finalized {
				in.report("FINALIZE", site, "initial headers written without Finalize() (checksum) after their last field update")
			}
		}
		return false, nil
	}
	if c, ok := site.(ssa.CallInstruction); ok && v.isMetaFieldSet(c) {
		// any later field update invalidates the checksum until the next Finalize
		p.finalized = false
		if p.inFlight {
			in.report("FINALIZE", site, "header field updated after the header buffer was handed to the writer (before Wait): the bytes written and their checksum can disagree")
		}
	}
	return false, nil
}

// loads of File.metaActive are the taint source for slot computations
func (o *orderPlugin) OnLoad(in *Interp, fs *FState, instr ssa.Instruction, cell *Cell) {
	if cell.fvar == o.voc.metaActive {
		in.Taint(in.loadCell(fs.st, cell))
	}
}

func (o *orderPlugin) OnStore(in *Interp, fs *FState, instr ssa.Instruction, cell *Cell, val Value) {
	v := o.voc
	if st, ok := instr.(*ssa.Store); ok {
		if n := namedOf(st.Addr.Type()); n != nil && n.Obj() == v.metaPage.Obj() {
			op(fs).finalized = false // whole header overwritten
		}
	}
	switch cell.fvar {
	case v.metaActive:
		if v.loaders[instr.Parent()] {
			return // open-time load of the recovered slot
		}
		o.switchEvent(in, fs, instr, "File.metaActive =")
		p := op(fs)
		if n, ok := asConstInt(val); ok {
			if p.slot >= 0 && int(n) != p.slot {
				in.report("SLOT", instr, fmt.Sprintf("File.metaActive := %d but the header was written to slot %d", n, p.slot))
			}
		}
	case v.maxPages, v.maxSize:
		if v.loaders[instr.Parent()] {
			return
		}
		o.switchEvent(in, fs, instr, "allocator."+cell.fvar.Name()+" =")
	}
}
