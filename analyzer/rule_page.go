package main

// Page-level rules (DESIGN §3 C01.2, C02.3, C03.1, C03.3, C04.4, C15): SHADOW, SCHEDULE-SITES,
// BUFFER-PRESERVE, WAL-RELEASE-ON-FREE, PAGE-BOUNDS, SETBYTES-BOUND.

import (
	"fmt"
	"go/token"
	"go/types"
	"strings"

	"golang.org/x/tools/go/ssa"
)

type pageVocab struct {
	p                            *Program
	fID, fOndisk, fBytes         *types.Var
	fNew, fDirty                 *types.Var // pageFlags.new / dirty
	fTxPages, fDataEndID         *types.Var
	fEndMarker, fFreed           *types.Var
	scheduleWrite, allocWALID    *ssa.Function
	freeWALID, doFlush, pageFree *ssa.Function
	walFree, walRelease          *ssa.Function
	schedule                     *ssa.Function
	getPage, newPage, has        *ssa.Function
}

func newPageVocab(p *Program) *pageVocab {
	return &pageVocab{p: p,
		fID:           p.FieldVar("txfile", "Page", "id"),
		fOndisk:       p.FieldVar("txfile", "Page", "ondiskID"),
		fBytes:        p.FieldVar("txfile", "Page", "bytes"),
		fNew:          p.FieldVar("txfile", "pageFlags", "new"),
		fDirty:        p.FieldVar("txfile", "pageFlags", "dirty"),
		fTxPages:      p.FieldVar("txfile", "Tx", "pages"),
		fDataEndID:    p.FieldVar("txfile", "Tx", "dataEndID"),
		fEndMarker:    p.FieldVar("txfile", "allocArea", "endMarker"),
		fFreed:        p.FieldVar("txfile", "txAllocArea", "freed"),
		scheduleWrite: p.Method("txfile", "Tx", "scheduleWrite"),
		allocWALID:    p.Method("txfile", "Tx", "allocWALID"),
		freeWALID:     p.Method("txfile", "Tx", "freeWALID"),
		doFlush:       p.Method("txfile", "Page", "doFlush"),
		pageFree:      p.Method("txfile", "Page", "Free"),
		walFree:       p.Method("txfile", "walAllocator", "Free"),
		walRelease:    p.Method("txfile", "txWalState", "Release"),
		schedule:      p.Method("txfile", "writer", "Schedule"),
		getPage:       p.Method("txfile", "Tx", "getPage"),
		newPage:       p.Func("txfile", "newPage"),
		has:           p.Method("txfile", "pageSet", "Has"),
	}
}

// idCmp: atom compares loads of Page.id and Page.ondiskID; returns the effective operator.
func (v *pageVocab) idCmp(a atom) (token.Token, bool) {
	op, x, y, ok := cmpAtom(a)
	if !ok || (op != token.EQL && op != token.NEQ) {
		return 0, false
	}
	fx, fy := loadedField(x), loadedField(y)
	if (fx == v.fID && fy == v.fOndisk) || (fx == v.fOndisk && fy == v.fID) {
		return op, true
	}
	return 0, false
}

// releasesWAL: callee (transitively, static calls) reaches both walAllocator.Free and txWalState.Release.
func (v *pageVocab) releasesWAL(callee *ssa.Function) bool {
	if callee == nil {
		return false
	}
	r := staticReach(v.p, callee)
	if !(r[v.walFree] && r[v.walRelease]) {
		return false
	}
	// ... on every path: a callee that releases only under a condition of its own (e.g. a lookup in some
	// other table) does not discharge the obligation of its caller
	calls := func(target *ssa.Function) func(ssa.Instruction) bool {
		return func(ins ssa.Instruction) bool {
			c, ok := ins.(ssa.CallInstruction)
			return ok && c.Common().StaticCallee() == target
		}
	}
	return everyReturnPasses(v.p, callee, calls(v.walFree), 0) && everyReturnPasses(v.p, callee, calls(v.walRelease), 0)
}

func ruleSHADOW(p *Program, rep *Report) {
	rep.Rule("SHADOW", 2, "a page write scheduled by Page.doFlush never targets a location the committed state references: the page is new, or it was redirected to a freshly allocated overwrite page (id == ondiskID, allocWALID != 0), or it goes back to the original that the committed mapping no longer references (id != ondiskID, WAL entry released)")
	rep.Rule("SCHEDULE-SITES", 3, "every (*writer).Schedule call site is one of the protocol's sites: the header write, the checkpoint copy (followed by freeWALID of the same id), or Tx.scheduleWrite — which in turn is only used by Page.doFlush and as the page callback of the two fileCommitSerialize routines")
	v := newPageVocab(p)
	fn := v.doFlush
	rep.Analysed(funcName(fn))
	nQual := 0
	// freshness analysis of one function: blocks containing a store to Page.ondiskID that makes the target
	// fresh, and the new == true edge
	var freshOf func(f *ssa.Function, depth int) (map[*ssa.BasicBlock]bool, map[cfgEdge]bool)
	freshOf = func(f *ssa.Function, depth int) (map[*ssa.BasicBlock]bool, map[cfgEdge]bool) {
		blocked := map[*ssa.BasicBlock]bool{}
		blockedEdges := map[cfgEdge]bool{}
		for _, b := range f.Blocks {
			for _, ins := range b.Instrs {
				// a helper all of whose successful returns passed a freshness store counts like one
				if c, ok := ins.(*ssa.Call); ok && depth < 2 {
					h := c.Common().StaticCallee()
					if h != nil && h != f && fnPkgPath(h) == modPath && len(h.Blocks) > 0 && storesField(h, v.fOndisk) {
						hb, he := freshOf(h, depth+1)
						reach := reachableAvoiding(h.Blocks[0], hb, he)
						allFresh := true
						for _, bb := range h.Blocks {
							if r, ok := bb.Instrs[len(bb.Instrs)-1].(*ssa.Return); ok && returnsNilError(r) && reach[bb] {
								allFresh = false
							}
						}
						if allFresh {
							rep.Analysed(funcName(h))
							blocked[b] = true
							nQual++
							rep.OK("SHADOW", "Page.doFlush|helper "+h.Name(), p.InstrPos(c), "every successful return of the helper passed a freshness store")
						}
					}
				}
				st, ok := ins.(*ssa.Store)
				if !ok || addrField(st.Addr) != v.fOndisk {
					continue
				}
				facts := expandPredicates(p, p.ctxFacts(b), 0)
				val := stripConv(st.Val)
				// (b) ondiskID := allocWALID(...) on the id == ondiskID edge, result != 0
				if c := callTo(val, v.allocWALID); c != nil {
					ok := facts.every(func(cj conj) bool {
						eq := cj.has(func(a atom) bool { op, ok := v.idCmp(a); return ok && op == token.EQL })
						nz := cj.has(func(a atom) bool {
							op, x, y, ok := cmpAtom(a)
							return ok && op == token.NEQ && ((stripConv(x) == ssa.Value(c) && isIntConst(y, 0)) || (stripConv(y) == ssa.Value(c) && isIntConst(x, 0)))
						})
						return eq && nz
					})
					if ok {
						blocked[b] = true
						nQual++
						rep.OK("SHADOW", "Page.doFlush|redirect-to-fresh-overwrite-page", p.InstrPos(st), "ondiskID := allocWALID() != 0 on the id == ondiskID edge")
					}
					continue
				}
				// (c) ondiskID := id on the id != ondiskID edge, with the WAL entry released before
				if loadedField(val) == v.fID {
					ok := facts.every(func(cj conj) bool {
						return cj.has(func(a atom) bool { op, ok := v.idCmp(a); return ok && op == token.NEQ })
					})
					released := false
					idx := instrIndex(b, st)
					for i := 0; i < idx; i++ {
						if c, isCall := b.Instrs[i].(*ssa.Call); isCall && v.releasesWAL(c.Common().StaticCallee()) {
							released = true
						}
					}
					if ok && released {
						blocked[b] = true
						nQual++
						rep.OK("SHADOW", "Page.doFlush|back-to-unreferenced-original", p.InstrPos(st), "ondiskID := id on the id != ondiskID edge after freeWALID")
					}
				}
			}
			// (a) the new == true edge
			if ifi, ok := b.Instrs[len(b.Instrs)-1].(*ssa.If); ok {
				for _, pol := range []bool{true, false} {
					d := condDNF(ifi.Cond, pol, 0, map[ssa.Value]bool{})
					if len(d) != 1 {
						continue
					}
					for _, a := range d[0] {
						if loadedField(a.v) == v.fNew && a.pol {
							succ := b.Succs[1]
							if pol {
								succ = b.Succs[0]
							}
							blockedEdges[cfgEdge{b, succ}] = true
						}
					}
				}
			}
		}
		return blocked, blockedEdges
	}
	blocked, blockedEdges := freshOf(fn, 0)
	writes := callsIn(fn, func(c *ssa.Function, _ ssa.CallInstruction) bool { return c == v.scheduleWrite || c == v.schedule })
	if len(writes) == 0 {
		rep.Bad("SHADOW", "Page.doFlush|no-write", p.Pos(fn.Pos()), "Page.doFlush no longer schedules the page write (anchor lost)")
	}
	for _, w := range writes {
		reach := reachableAvoiding(fn.Blocks[0], blocked, blockedEdges)
		key := "Page.doFlush|scheduleWrite"
		// target must be the page's ondiskID
		tgt := w.Common().Args[1]
		if loadedField(tgt) != v.fOndisk {
			rep.Bad("SHADOW", key+"|target", p.InstrPos(w), "the scheduled write does not target Page.ondiskID")
			continue
		}
		if reach[w.Block()] {
			rep.Bad("SHADOW", key, p.InstrPos(w), "a path reaches the page write without making the target location fresh (page not new, no redirect to a newly allocated overwrite page, no release of the old overwrite page): the write can overwrite bytes the last committed state still references (in-place update)")
		} else {
			rep.OK("SHADOW", key, p.InstrPos(w), fmt.Sprintf("every path to the write passes the new-page edge or one of %d freshness stores", nQual))
		}
	}

	// SCHEDULE-SITES
	ov := newOrderVocab(p)
	walSer := p.Method("txfile", "waLog", "fileCommitSerialize")
	allocSer := p.Method("txfile", "allocator", "fileCommitSerialize")
	for _, f := range p.SrcFuncs() {
		if fnPkgPath(f) != modPath {
			continue
		}
		for _, b := range f.Blocks {
			for _, ins := range b.Instrs {
				c, ok := ins.(ssa.CallInstruction)
				if ok && c.Common().StaticCallee() == v.schedule {
					key := funcName(f) + "|writer.Schedule"
					id := c.Common().Args[2]
					switch {
					case f == v.scheduleWrite:
						rep.OK("SCHEDULE-SITES", key, p.InstrPos(ins), "the transaction's page-write primitive")
					case derivesFromField(id, ov.metaActive, 0):
						rep.OK("SCHEDULE-SITES", key, p.InstrPos(ins), "header write (slot derived from File.metaActive), decided by ORDER/SLOT")
					default:
						// checkpoint copy: same block, later freeWALID(id, …) with the same id value
						idx := instrIndex(b, ins)
						okCp := false
						for i := idx + 1; i < len(b.Instrs); i++ {
							if c2, ok := b.Instrs[i].(*ssa.Call); ok && v.releasesWAL(c2.Common().StaticCallee()) && len(c2.Common().Args) > 1 && c2.Common().Args[1] == id {
								okCp = true
							}
						}
						if okCp {
							rep.OK("SCHEDULE-SITES", key, p.InstrPos(ins), "checkpoint copy back to the original page, followed by freeWALID of the same id")
						} else {
							rep.Bad("SCHEDULE-SITES", key, p.InstrPos(ins), "page write scheduled outside the protocol's sites (not the header write, not Tx.scheduleWrite, not a checkpoint copy followed by freeWALID of the same page)")
						}
					}
				}
				// references to Tx.scheduleWrite
				for _, opnd := range ins.Operands(nil) {
					if opnd == nil || *opnd == nil {
						continue
					}
					g, isFn := (*opnd).(*ssa.Function)
					if !isFn {
						continue
					}
					isSW := g == v.scheduleWrite || (strings.HasSuffix(g.Name(), "scheduleWrite$bound") && g.Synthetic != "")
					if !isSW {
						continue
					}
					key := funcName(f) + "|uses-Tx.scheduleWrite"
					outer := f
					for outer.Parent() != nil {
						outer = outer.Parent()
					}
					hdrUse := false
					if c, ok := ins.(ssa.CallInstruction); ok && c.Common().StaticCallee() == g && len(c.Common().Args) > 1 && derivesFromField(c.Common().Args[1], ov.metaActive, 0) {
						hdrUse = true
					}
					// checkpoint copy through the page-write primitive: followed in the same block by freeWALID
					// of the same page id
					cpUse := false
					if c, ok := ins.(ssa.CallInstruction); ok && c.Common().StaticCallee() == g && len(c.Common().Args) > 1 {
						id := c.Common().Args[1]
						for i := instrIndex(b, ins) + 1; i < len(b.Instrs); i++ {
							if c2, ok := b.Instrs[i].(*ssa.Call); ok && v.releasesWAL(c2.Common().StaticCallee()) && len(c2.Common().Args) > 1 && c2.Common().Args[1] == id {
								cpUse = true
							}
						}
					}
					switch {
					case hdrUse:
						rep.OK("SCHEDULE-SITES", key, p.InstrPos(ins), "header write (slot derived from File.metaActive), decided by ORDER/SLOT")
					case cpUse:
						rep.OK("SCHEDULE-SITES", key, p.InstrPos(ins), "checkpoint copy back to the original page, followed by freeWALID of the same id")
					case f == v.doFlush:
						rep.OK("SCHEDULE-SITES", key, p.InstrPos(ins), "decided by SHADOW")
					case usedOnlyAsSerializeCallback(ins, g, walSer, allocSer) || wrapperOnlyForSerialize(p, f, walSer, allocSer):
						rep.OK("SCHEDULE-SITES", key, p.InstrPos(ins), "page callback of fileCommitSerialize: targets are meta pages allocated in this transaction")
					default:
						rep.Bad("SCHEDULE-SITES", key, p.InstrPos(ins), "Tx.scheduleWrite used outside Page.doFlush and the fileCommitSerialize callbacks: a page write that no shadow-paging rule covers")
					}
				}
			}
		}
	}
}

// usedOnlyAsSerializeCallback: instruction builds the bound method value that is passed to a
// fileCommitSerialize call.
func usedOnlyAsSerializeCallback(ins ssa.Instruction, g *ssa.Function, sers ...*ssa.Function) bool {
	mc, ok := ins.(*ssa.MakeClosure)
	if !ok {
		return false
	}
	refs := mc.Referrers()
	if refs == nil || len(*refs) == 0 {
		return false
	}
	for _, r := range *refs {
		c, ok := r.(ssa.CallInstruction)
		if !ok {
			if _, dbg := r.(*ssa.DebugRef); dbg {
				continue
			}
			return false
		}
		callee := c.Common().StaticCallee()
		match := false
		for _, s := range sers {
			if callee == s {
				match = true
			}
		}
		if !match {
			return false
		}
	}
	return true
}

// wrapperOnlyForSerialize: f is a small method that forwards to scheduleWrite and is itself only used as
// a fileCommitSerialize callback (scheduleCommitMetaWrite).
func wrapperOnlyForSerialize(p *Program, f *ssa.Function, sers ...*ssa.Function) bool {
	if f.Parent() != nil || f.Signature.Recv() == nil {
		return false
	}
	used := 0
	for _, g := range p.SrcFuncs() {
		for _, b := range g.Blocks {
			for _, ins := range b.Instrs {
				for _, opnd := range ins.Operands(nil) {
					if opnd == nil || *opnd == nil {
						continue
					}
					h, ok := (*opnd).(*ssa.Function)
					if !ok {
						continue
					}
					if h == f {
						return false // called directly somewhere
					}
					if h.Synthetic != "" && strings.HasPrefix(h.Name(), f.Name()+"$bound") {
						used++
						if !usedOnlyAsSerializeCallback(ins, h, sers...) {
							return false
						}
					}
				}
			}
		}
	}
	return used > 0
}

func ruleBUFFERPRESERVE(p *Program, rep *Report) {
	rep.Rule("BUFFER-PRESERVE", 3, "the write buffer Page.bytes is replaced only when nothing is lost: under bytes == nil, under flags.dirty == false, or by a caller-supplied buffer (parameter of the storing function)")
	v := newPageVocab(p)
	for _, fn := range p.SrcFuncs() {
		if fnPkgPath(fn) != modPath {
			continue
		}
		n := 0
		for _, b := range fn.Blocks {
			for _, ins := range b.Instrs {
				st, ok := ins.(*ssa.Store)
				if !ok || addrField(st.Addr) != v.fBytes {
					continue
				}
				if _, isFA := st.Addr.(*ssa.FieldAddr); !isFA {
					continue
				}
				n++
				rep.Analysed(funcName(fn))
				key := fmt.Sprintf("%s|bytes=#%d", funcName(fn), n)
				if _, isParam := stripConv(st.Val).(*ssa.Parameter); isParam {
					rep.OK("BUFFER-PRESERVE", key, p.InstrPos(ins), "caller-supplied buffer")
					continue
				}
				if isNilConst(st.Val) {
					rep.OK("BUFFER-PRESERVE", key, p.InstrPos(ins), "buffer dropped explicitly")
					continue
				}
				how := ""
				good := p.ctxFacts(b).every(func(cj conj) bool {
					return cj.has(func(a atom) bool {
						if loadedField(a.v) == v.fDirty && !a.pol {
							how = "flags.dirty == false"
							return true
						}
						if op, x, y, ok := cmpAtom(a); ok && op == token.EQL {
							if (loadedField(x) == v.fBytes && isNilConst(y)) || (loadedField(y) == v.fBytes && isNilConst(x)) {
								how = "bytes == nil"
								return true
							}
						}
						return false
					})
				})
				if good {
					rep.OK("BUFFER-PRESERVE", key, p.InstrPos(ins), "guarded by "+how)
				} else {
					rep.Bad("BUFFER-PRESERVE", key, p.InstrPos(ins), "Page.bytes is replaced on a path where the page may be dirty and already hold written contents (neither bytes == nil nor flags.dirty == false is established): an earlier write of this transaction is lost")
				}
			}
		}
	}
}

func ruleWALRELEASEONFREE(p *Program, rep *Report) {
	rep.Rule("WAL-RELEASE-ON-FREE", 1, "in Page.Free every path to a successful return on which the page is redirected (id != ondiskID) releases the overwrite page and its mapping entry (walAllocator.Free + txWalState.Release)")
	v := newPageVocab(p)
	fn := v.pageFree
	rep.Analysed(funcName(fn))
	blocked := map[*ssa.BasicBlock]bool{}
	blockedEdges := map[cfgEdge]bool{}
	for _, b := range fn.Blocks {
		for _, ins := range b.Instrs {
			if c, ok := ins.(*ssa.Call); ok && (v.releasesWAL(c.Common().StaticCallee()) || v.helperReleasesWhenRedirected(c)) {
				blocked[b] = true
			}
		}
		if ifi, ok := b.Instrs[len(b.Instrs)-1].(*ssa.If); ok {
			for _, pol := range []bool{true, false} {
				d := expandPredicates(p, condDNF(ifi.Cond, pol, 0, map[ssa.Value]bool{}), 0)
				// on this edge the page is known not to be redirected (id == ondiskID in every disjunct)
				if len(d) > 0 && d.every(func(cj conj) bool {
					return cj.has(func(a atom) bool { op, ok := v.idCmp(a); return ok && op == token.EQL })
				}) {
					succ := b.Succs[1]
					if pol {
						succ = b.Succs[0]
					}
					blockedEdges[cfgEdge{b, succ}] = true
				}
			}
		}
	}
	reach := reachableAvoiding(fn.Blocks[0], blocked, blockedEdges)
	bad := false
	frees := 0
	for _, b := range fn.Blocks {
		if r, ok := b.Instrs[len(b.Instrs)-1].(*ssa.Return); ok && returnsNilError(r) && reach[b] {
			bad = true
			rep.Bad("WAL-RELEASE-ON-FREE", "Page.Free|success-without-release", p.InstrPos(r), "Page.Free can return success for a redirected page (id != ondiskID) without releasing the overwrite page and its mapping: the committed mapping keeps id → walID, and once id is re-allocated readers are redirected to the stale overwrite page")
		}
		for _, ins := range b.Instrs {
			if c, ok := ins.(*ssa.Call); ok && c.Common().StaticCallee() != nil && c.Common().StaticCallee().Name() == "freePage" {
				frees++
			}
		}
	}
	if !bad {
		rep.OK("WAL-RELEASE-ON-FREE", "Page.Free", p.Pos(fn.Pos()), "every success return passes freeWALID or the id == ondiskID edge")
	}
}

func rulePAGEBOUNDS(p *Program, rep *Report) {
	rep.Rule("PAGE-BOUNDS", 2, "below Tx.getPage the creation / lookup of a Page is dominated by id >= 2, id < end marker (snapshot for readers, allocator for the writer) and by the negative outcome of both freed-set tests (guards may live in helpers and boolean predicates)")
	v := newPageVocab(p)
	root := v.getPage
	rep.Analysed(funcName(root))
	idParam := root.Params[len(root.Params)-1]
	isID := func(x ssa.Value) bool {
		return pureCopyOf(p, x, func(b ssa.Value) bool { return b == ssa.Value(idParam) }, 0)
	}
	check := func(ins ssa.Instruction, what string) {
		facts := expandPredicates(p, p.ctxFacts(ins.Block()), 0)
		var missing []string
		lower := facts.every(func(cj conj) bool {
			return cj.has(func(a atom) bool {
				op, x, y, ok := cmpAtom(a)
				return ok && op == token.GEQ && isID(x) && isIntConst(y, 2)
			})
		})
		upper := facts.every(func(cj conj) bool {
			return cj.has(func(a atom) bool {
				op, x, y, ok := cmpAtom(a)
				if !ok || op != token.LSS || !isID(x) {
					return false
				}
				f := loadedField(y)
				return f == v.fDataEndID || f == v.fEndMarker
			})
		})
		freedCnt := 0
		for _, area := range []string{"data", "meta"} {
			area := area
			ok := facts.every(func(cj conj) bool {
				return cj.has(func(a atom) bool {
					c := callTo(a.v, v.has)
					if c == nil || a.pol || recvField(c) != v.fFreed {
						return false
					}
					// which area: the FieldAddr chain of the receiver contains data / meta
					return recvChainHas(c, area)
				})
			})
			if ok {
				freedCnt++
			} else {
				missing = append(missing, "not in tx.alloc."+area+".freed")
			}
		}
		if !lower {
			missing = append(missing, "id >= 2")
		}
		if !upper {
			missing = append(missing, "id < end marker")
		}
		key := "Tx.getPage|" + what
		if len(missing) == 0 {
			rep.OK("PAGE-BOUNDS", key, p.InstrPos(ins), "dominated by id >= 2, id < end marker, not freed (data, meta)")
		} else {
			rep.Bad("PAGE-BOUNDS", key, p.InstrPos(ins), what+" below Tx.getPage is not dominated by: "+strings.Join(missing, ", ")+" — a page outside the transaction's bounds, a file-internal page or an already freed page becomes accessible")
		}
	}
	// getPage and the helpers only it uses
	for _, fn := range sortedFns(staticReach(p, root)) {
		if fn != root && (exportedAPI(fn) || p.callIndex().escapes[fn]) {
			continue
		}
		if fn != root {
			only := true
			for _, s := range p.callIndex().sites[fn] {
				if !staticReach(p, root)[s.Parent()] {
					only = false
				}
			}
			if !only {
				continue
			}
		}
		for _, b := range fn.Blocks {
			for _, ins := range b.Instrs {
				switch x := ins.(type) {
				case *ssa.Call:
					if x.Common().StaticCallee() == v.newPage {
						rep.Analysed(funcName(fn))
						check(ins, "newPage")
					}
				case *ssa.Lookup:
					if loadedField(x.X) == v.fTxPages {
						rep.Analysed(funcName(fn))
						check(ins, "lookup of tx.pages")
					}
				}
			}
		}
	}
}

func recvChainHas(c *ssa.Call, field string) bool {
	if len(c.Common().Args) == 0 {
		return false
	}
	x := c.Common().Args[0]
	if u, ok := x.(*ssa.UnOp); ok {
		x = u.X
	}
	for {
		fa, ok := x.(*ssa.FieldAddr)
		if !ok {
			return false
		}
		if fieldOfAddr(fa).Name() == field {
			return true
		}
		x = fa.X
	}
}

func ruleSETBYTESBOUND(p *Program, rep *Report) {
	rep.Rule("SETBYTES-BOUND", 1, "in Page.SetBytes every store into the page buffer is dominated by the pass edge of len(contents) > pageSize (oversize contents are rejected)")
	v := newPageVocab(p)
	fn := p.Method("txfile", "Page", "SetBytes")
	rep.Analysed(funcName(fn))
	contents := fn.Params[len(fn.Params)-1]
	n := 0
	for _, b := range fn.Blocks {
		for _, ins := range b.Instrs {
			isWrite := false
			what := ""
			switch x := ins.(type) {
			case *ssa.Store:
				if addrField(x.Addr) == v.fBytes {
					isWrite, what = true, "bytes="
				}
			case *ssa.Call:
				if bi, ok := x.Common().Value.(*ssa.Builtin); ok && bi.Name() == "copy" {
					isWrite, what = true, "copy"
				}
				if sc := x.Common().StaticCallee(); sc != nil && sc.Name() == "setDirty" {
					isWrite, what = true, "setDirty"
				}
			}
			if !isWrite {
				continue
			}
			n++
			good := p.ctxFacts(b).every(func(cj conj) bool {
				return cj.has(func(a atom) bool {
					op, x, y, ok := cmpAtom(a)
					if !ok {
						return false
					}
					isLen := func(z ssa.Value) bool {
						c, ok := stripConv(z).(*ssa.Call)
						if !ok {
							return false
						}
						bi, ok := c.Common().Value.(*ssa.Builtin)
						return ok && bi.Name() == "len" && c.Common().Args[0] == ssa.Value(contents)
					}
					// pass edge of len > pageSize is len <= pageSize (or pageSize >= len)
					return (op == token.LEQ && isLen(x)) || (op == token.GEQ && isLen(y)) || (op == token.LSS && isLen(x)) || (op == token.GTR && isLen(y))
				})
			})
			key := "Page.SetBytes|" + what
			if good {
				rep.OK("SETBYTES-BOUND", key, p.InstrPos(ins), "dominated by len(contents) <= pageSize")
			} else {
				rep.Bad("SETBYTES-BOUND", key, p.InstrPos(ins), "the page buffer is written in SetBytes without a dominating len(contents) <= pageSize test: oversize contents are accepted and spill into the next page on flush")
			}
		}
	}
	if n == 0 {
		rep.Bad("SETBYTES-BOUND", "Page.SetBytes|no-write", p.Pos(fn.Pos()), "anchor lost: SetBytes no longer writes the buffer")
	}
}

// ruleCHECKPOINTCOMPLETE (C03): the WAL checkpoint may leave out a mapping entry only for a page that is
// dirty in this transaction (its overwrite page is released when the page is flushed).  On an automatic
// checkpoint the new mapping consists of this transaction's entries only, so any other skipped entry
// silently drops committed contents.
func ruleCHECKPOINTCOMPLETE(p *Program, rep *Report) {
	rep.Rule("CHECKPOINT-COMPLETE", 1, "in Tx.doCheckpointWAL every iteration over the committed overwrite mapping either records the entry for copy-back (and release) or skips it under page.flags.dirty == true — no other skip condition")
	root := p.Method("txfile", "Tx", "doCheckpointWAL")
	fn := root
	mapping := p.FieldVar("txfile", "waLog", "mapping")
	dirty := p.FieldVar("txfile", "pageFlags", "dirty")
	rep.Analysed(funcName(root))
	// the loop: a Next instruction over a Range of the mapping, in doCheckpointWAL or a helper of it
	var header *ssa.BasicBlock
	for _, f := range sortedFns(staticReach(p, root)) {
		for _, b := range f.Blocks {
			for _, ins := range b.Instrs {
				if nx, ok := ins.(*ssa.Next); ok && header == nil {
					if rg, ok := nx.Iter.(*ssa.Range); ok && loadedField(rg.X) == mapping {
						header = b
						fn = f
						rep.Analysed(funcName(f))
					}
				}
			}
		}
	}
	if header == nil {
		rep.Unknown("CHECKPOINT-COMPLETE", "Tx.doCheckpointWAL|loop", p.Pos(fn.Pos()), "no range loop over waLog.mapping found (anchor lost)")
		return
	}
	// blocks that record the entry (append to a []PageID)
	rec := map[*ssa.BasicBlock]bool{}
	for _, b := range fn.Blocks {
		for _, ins := range b.Instrs {
			if c, ok := ins.(*ssa.Call); ok {
				if bi, ok := c.Common().Value.(*ssa.Builtin); ok && bi.Name() == "append" {
					if sl, ok := c.Type().Underlying().(*types.Slice); ok && isNamed(sl.Elem(), modPath, "PageID") {
						rec[b] = true
					}
				}
			}
		}
	}
	if len(rec) == 0 {
		rep.Unknown("CHECKPOINT-COMPLETE", "Tx.doCheckpointWAL|record", p.Pos(fn.Pos()), "the loop no longer records entries (anchor lost)")
		return
	}
	// back edges into the header from blocks not dominated by a recording block
	n := 0
	for _, pred := range header.Preds {
		if !header.Dominates(pred) {
			continue // loop entry
		}
		recorded := false
		for r := range rec {
			if r == pred || r.Dominates(pred) {
				recorded = true
			}
		}
		if recorded {
			continue
		}
		n++
		good := edgeFacts(pred, header, 0, map[ssa.Value]bool{}).every(func(cj conj) bool {
			return cj.has(func(a atom) bool { return loadedField(a.v) == dirty && a.pol })
		})
		// facts of the skipping block itself
		good = good || blockFacts(pred).every(func(cj conj) bool {
			return cj.has(func(a atom) bool { return loadedField(a.v) == dirty && a.pol })
		})
		key := "Tx.doCheckpointWAL|skip"
		if good {
			rep.OK("CHECKPOINT-COMPLETE", key, p.InstrPos(pred.Instrs[len(pred.Instrs)-1]), "entry skipped only under page.flags.dirty == true")
		} else {
			rep.Bad("CHECKPOINT-COMPLETE", key, p.InstrPos(pred.Instrs[len(pred.Instrs)-1]), "the checkpoint can skip a committed overwrite-mapping entry on a path where the page is not dirty: the entry is neither copied back nor kept by an automatic checkpoint, readers fall back to the stale original page")
		}
	}
	if n == 0 {
		rep.OK("CHECKPOINT-COMPLETE", "Tx.doCheckpointWAL|no-skip", p.Pos(fn.Pos()), "every iteration records the entry")
	}
}

// storesField: f (or a function it calls statically, one level) stores to the given field.
func storesField(f *ssa.Function, fld *types.Var) bool {
	for _, b := range f.Blocks {
		for _, ins := range b.Instrs {
			if st, ok := ins.(*ssa.Store); ok && addrField(st.Addr) == fld {
				return true
			}
		}
	}
	return false
}

// helperReleasesWhenRedirected: the call hands the page's id and ondiskID to a helper in which every return
// path either releases the overwrite page (freeWALID-like call) or passes the edge on which the two ids are
// equal — the free-and-release pair extracted into one function.
func (v *pageVocab) helperReleasesWhenRedirected(c *ssa.Call) bool {
	h := c.Common().StaticCallee()
	if h == nil || fnPkgPath(h) != modPath || len(h.Blocks) == 0 {
		return false
	}
	idIdx, odIdx := -1, -1
	for i, a := range c.Common().Args {
		switch loadedField(a) {
		case v.fID:
			idIdx = i
		case v.fOndisk:
			odIdx = i
		}
	}
	if idIdx < 0 || odIdx < 0 || idIdx >= len(h.Params) || odIdx >= len(h.Params) {
		return false
	}
	pid, pod := ssa.Value(h.Params[idIdx]), ssa.Value(h.Params[odIdx])
	blocked := map[*ssa.BasicBlock]bool{}
	blockedEdges := map[cfgEdge]bool{}
	any := false
	for _, b := range h.Blocks {
		for _, ins := range b.Instrs {
			if cc, ok := ins.(*ssa.Call); ok && v.releasesWAL(cc.Common().StaticCallee()) {
				blocked[b] = true
				any = true
			}
		}
		if ifi, ok := b.Instrs[len(b.Instrs)-1].(*ssa.If); ok {
			for _, pol := range []bool{true, false} {
				d := condDNF(ifi.Cond, pol, 0, map[ssa.Value]bool{})
				if len(d) > 0 && d.every(func(cj conj) bool {
					return cj.has(func(a atom) bool {
						op, x, y, isCmp := cmpAtom(a)
						return isCmp && op == token.EQL && ((stripConv(x) == pid && stripConv(y) == pod) || (stripConv(x) == pod && stripConv(y) == pid))
					})
				}) {
					succ := b.Succs[1]
					if pol {
						succ = b.Succs[0]
					}
					blockedEdges[cfgEdge{b, succ}] = true
				}
			}
		}
	}
	if !any {
		return false
	}
	reach := reachableAvoiding(h.Blocks[0], blocked, blockedEdges)
	for _, b := range h.Blocks {
		if _, isRet := b.Instrs[len(b.Instrs)-1].(*ssa.Return); isRet && reach[b] {
			return false
		}
	}
	return true
}
