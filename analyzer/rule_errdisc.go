package main

// Engine D — error discipline (DESIGN §2.4, C08.1, C12.4, C06, C07).
// Every call whose resolved callee is defined in the repository (or is a method of a repository
// interface) and returns an error-like value must have that value consumed.  Exceptions are listed
// one by one in allowlist.json (caller, callee, reason).

import (
	"encoding/json"
	"fmt"
	"os"
	"path/filepath"
	"sort"
	"strings"

	"golang.org/x/tools/go/ssa"
)

type allowEntry struct {
	Caller string `json:"caller"`
	Callee string `json:"callee"`
	Reason string `json:"reason"`
	used   bool
}

func loadAllowlist(dir string) ([]*allowEntry, error) {
	b, err := os.ReadFile(filepath.Join(dir, "allowlist.json"))
	if err != nil {
		return nil, err
	}
	var l []*allowEntry
	if err := json.Unmarshal(b, &l); err != nil {
		return nil, err
	}
	return l, nil
}

var verifDir = "/verif"

type errSite struct {
	caller  *ssa.Function
	callee  string
	ins     ssa.Instruction
	how     string
	ioCap   bool
	calleeF *ssa.Function
}

// calleeName: resolved static callee, or Interface.Method for invokes on repository interfaces.
func errCalleeOf(p *Program, c ssa.CallInstruction) (string, *ssa.Function, bool) {
	cc := c.Common()
	if cc.IsInvoke() {
		n := namedOf(cc.Value.Type())
		if n == nil || n.Obj().Pkg() == nil {
			return "", nil, false
		}
		pp := n.Obj().Pkg().Path()
		if pp != modPath && !strings.HasPrefix(pp, modPath+"/") {
			return "", nil, false
		}
		short := strings.TrimPrefix(strings.TrimPrefix(pp, modPath), "/")
		if short == "" {
			short = "txfile"
		}
		return short + "." + n.Obj().Name() + "." + cc.Method.Name(), nil, true
	}
	sc := cc.StaticCallee()
	if sc == nil {
		return "", nil, false
	}
	if !p.InRepo(sc) {
		// synthetic bound-method wrappers of repo methods
		if sc.Synthetic == "" {
			return "", nil, false
		}
		if o := sc.Object(); o == nil || o.Pkg() == nil || !(o.Pkg().Path() == modPath || strings.HasPrefix(o.Pkg().Path(), modPath+"/")) {
			return "", nil, false
		}
	}
	return funcName(sc), sc, true
}

func valueConsumed(v ssa.Value) bool {
	refs := v.Referrers()
	if refs == nil {
		return true
	}
	for _, r := range *refs {
		if _, dbg := r.(*ssa.DebugRef); dbg {
			continue
		}
		return true
	}
	return false
}

// collectDroppedErrors enumerates all call sites in non-test repo code that drop an error-like result.
func collectDroppedErrors(p *Program) (dropped []errSite, total int) {
	ioFns := ioCapable(p)
	for _, fn := range p.SrcFuncs() {
		pp := fnPkgPath(fn)
		if pp != modPath && pp != modPath+"/pq" {
			continue
		}
		for _, b := range fn.Blocks {
			for _, ins := range b.Instrs {
				c, ok := ins.(ssa.CallInstruction)
				if !ok {
					continue
				}
				sig := c.Common().Signature()
				res := sig.Results()
				if res.Len() == 0 || !errorLike(res.At(res.Len()-1).Type()) {
					continue
				}
				name, calleeF, ok := errCalleeOf(p, c)
				if !ok {
					continue
				}
				if calleeF != nil && neverFails(calleeF) {
					continue // every return of the callee carries the constant nil error
				}
				total++
				how := ""
				switch x := ins.(type) {
				case *ssa.Defer:
					how = "deferred call, result discarded"
				case *ssa.Go:
					how = "go statement, result discarded"
				case *ssa.Call:
					if res.Len() == 1 {
						if !valueConsumed(x) {
							how = "result not used"
						}
					} else {
						found := false
						if refs := x.Referrers(); refs != nil {
							for _, r := range *refs {
								if ex, ok := r.(*ssa.Extract); ok && ex.Index == res.Len()-1 {
									found = true
									if !valueConsumed(ex) {
										how = "error result assigned but never used"
									}
								}
							}
						}
						if !found {
							how = "error result not extracted (assigned to _ or statement call)"
						}
					}
				}
				if how == "" {
					continue
				}
				io := false
				if calleeF != nil {
					io = ioFns[calleeF]
				} else {
					io = true // interface of the repo (vfs.File, Delegate): I/O capable
				}
				dropped = append(dropped, errSite{caller: fn, callee: name, ins: ins, how: how, ioCap: io, calleeF: calleeF})
			}
		}
	}
	sort.Slice(dropped, func(i, j int) bool {
		a, b := dropped[i], dropped[j]
		if funcName(a.caller) != funcName(b.caller) {
			return funcName(a.caller) < funcName(b.caller)
		}
		return a.callee < b.callee
	})
	return dropped, total
}

// ioCapable: functions from which a vfs.File method or txWriteSync.Wait is reachable (CHA).
func ioCapable(p *Program) map[*ssa.Function]bool {
	seeds := map[*ssa.Function]bool{}
	cg := p.CHA()
	for fn := range cg.Nodes {
		if fn == nil {
			continue
		}
		if fn == p.MethodOpt("txfile", "txWriteSync", "Wait") {
			seeds[fn] = true
		}
		if p.InRepo(fn) {
			for _, b := range fn.Blocks {
				for _, ins := range b.Instrs {
					if c, ok := ins.(ssa.CallInstruction); ok && c.Common().IsInvoke() && isNamed(c.Common().Value.Type(), modPath+"/internal/vfs", "File") {
						seeds[fn] = true
					}
				}
			}
		}
	}
	return reachesAny(cg, seeds)
}

// ruleERRDISC reports dropped errors; pkgFilter selects the caller package ("" = txfile, "pq").
func ruleERRDISC(p *Program, rep *Report, pkgFilter string, ioOnly bool) {
	rep.Rule("ERRDISC", 10, "no error returned by a repository function or repository interface method is dropped: the value is returned, tested, wrapped or stored; the only exceptions are the call edges listed (with a reason each) in allowlist.json")
	allow, err := loadAllowlist(verifDir)
	if err != nil {
		rep.Unknown("ERRDISC", "allowlist", "", "cannot read allowlist.json: "+err.Error())
		return
	}
	dropped, total := collectDroppedErrors(p)
	rep.Note("ERRDISC: %d call sites with an error-like result of a repository callee were examined", total)
	wantPkg := modPath
	if pkgFilter == "pq" {
		wantPkg = modPath + "/pq"
	}
	// consumed sites are discharged in bulk per caller function (one obligation per caller)
	consumedBy := map[string]int{}
	for _, fn := range p.SrcFuncs() {
		if fnPkgPath(fn) != wantPkg {
			continue
		}
		for _, b := range fn.Blocks {
			for _, ins := range b.Instrs {
				c, ok := ins.(ssa.CallInstruction)
				if !ok {
					continue
				}
				res := c.Common().Signature().Results()
				if res.Len() == 0 || !errorLike(res.At(res.Len()-1).Type()) {
					continue
				}
				if _, cf, ok := errCalleeOf(p, c); ok && !(cf != nil && neverFails(cf)) {
					consumedBy[funcName(fn)]++
				}
			}
		}
	}
	droppedIn := map[string]int{}
	for _, d := range dropped {
		if fnPkgPath(d.caller) != wantPkg {
			continue
		}
		if ioOnly && !d.ioCap {
			continue
		}
		caller := funcName(d.caller)
		droppedIn[caller]++
		key := caller + " -> " + d.callee
		var hit *allowEntry
		for _, a := range allow {
			if a.Callee != d.callee {
				continue
			}
			// the listed caller itself, or a helper that is only ever reached below it (the drop site moved
			// into an extracted function: same edge, same reason)
			if a.Caller == caller || onlyCalledBelow(p, d.caller, a.Caller, map[*ssa.Function]bool{}) {
				hit = a
			}
		}
		if hit != nil {
			hit.used = true
			rep.OK("ERRDISC", key, p.InstrPos(d.ins), "allow-listed: "+hit.Reason)
			continue
		}
		if why := structuralException(p, d); why != "" {
			rep.OK("ERRDISC", key, p.InstrPos(d.ins), "accepted idiom: "+why)
			continue
		}
		rep.Bad("ERRDISC", key, p.InstrPos(d.ins), fmt.Sprintf("error of %s is dropped in %s (%s): a failure of the storage layer goes unnoticed", d.callee, caller, d.how))
	}
	callers := make([]string, 0, len(consumedBy))
	for c := range consumedBy {
		callers = append(callers, c)
	}
	sort.Strings(callers)
	for _, c := range callers {
		rep.Analysed(c)
		if consumedBy[c]-droppedIn[c] > 0 {
			rep.OK("ERRDISC", c+"|consumed", "", fmt.Sprintf("%d error-returning call(s) consumed", consumedBy[c]-droppedIn[c]))
		}
	}
}

// neverFails: every Return's error-like last result is the nil constant.
func neverFails(fn *ssa.Function) bool {
	if len(fn.Blocks) == 0 {
		return false
	}
	n := 0
	for _, b := range fn.Blocks {
		if r, ok := b.Instrs[len(b.Instrs)-1].(*ssa.Return); ok {
			n++
			if len(r.Results) == 0 || !isNilConst(r.Results[len(r.Results)-1]) {
				return false
			}
		}
	}
	return n > 0
}

// isReleaseOp: operations that give something back; their error cannot be handled on a cleanup path.
func isReleaseOp(callee string) bool {
	for _, suf := range []string{"File.Unlock", "File).Unlock", "File.Close", "File).Close", "(*txfile.File).munmap", "(*txfile.Tx).Close", "(*txfile.Tx).Rollback", "File.MUnmap", "File).MUnmap"} {
		if strings.HasSuffix(callee, suf) {
			return true
		}
	}
	return false
}

// onlyDeferred: fn is an anonymous function whose value is only ever deferred or handed to a
// cleanup.* helper (i.e. it is a cleanup action).
func onlyDeferred(fn *ssa.Function) bool {
	par := fn.Parent()
	if par == nil {
		return false
	}
	used := false
	for _, b := range par.Blocks {
		for _, ins := range b.Instrs {
			mc, ok := ins.(*ssa.MakeClosure)
			if !ok || mc.Fn != ssa.Value(fn) || mc.Referrers() == nil {
				// a closure without free variables is referenced as a plain function value
				if c, ok2 := ins.(ssa.CallInstruction); ok2 {
					for _, a := range append([]ssa.Value{c.Common().Value}, c.Common().Args...) {
						if a == ssa.Value(fn) {
							used = true
							if _, isDefer := ins.(*ssa.Defer); !isDefer {
								sc := c.Common().StaticCallee()
								if sc == nil || !strings.HasSuffix(fnPkgPath(sc), "internal/cleanup") {
									return false
								}
							}
						}
					}
				}
				continue
			}
			for _, r := range *mc.Referrers() {
				switch x := r.(type) {
				case *ssa.Defer:
					used = true
				case ssa.CallInstruction:
					sc := x.Common().StaticCallee()
					if sc == nil || !strings.HasSuffix(fnPkgPath(sc), "internal/cleanup") {
						return false
					}
					used = true
				case *ssa.DebugRef:
				default:
					return false
				}
			}
		}
	}
	return used
}

// structuralException recognises the two idioms under which this code base deliberately drops an error:
//  (1) a release operation (Unlock/Close/munmap/Tx.Close/Rollback) executed as a deferred cleanup action;
//  (2) draining the writer: a Wait() whose result is dropped, in a function where an earlier Wait() result
//      is consumed (that error is the one reported) or as a deferred call.
func structuralException(p *Program, d errSite) string {
	_, isDefer := d.ins.(*ssa.Defer)
	if isReleaseOp(d.callee) && (isDefer || onlyDeferred(d.caller)) {
		return "release operation on a deferred cleanup path"
	}
	if strings.HasSuffix(d.callee, "(*txfile.txWriteSync).Wait") {
		if isDefer {
			return "deferred Wait only drains the writer"
		}
		wait := p.MethodOpt("txfile", "txWriteSync", "Wait")
		for _, c := range callsIn(d.caller, func(cal *ssa.Function, _ ssa.CallInstruction) bool { return cal == wait }) {
			cv, ok := c.(*ssa.Call)
			if !ok || c == d.ins.(ssa.CallInstruction) {
				continue
			}
			if valueConsumed(cv) && (cv.Block().Dominates(d.ins.Block())) {
				return "drain after an earlier Wait whose error is consumed"
			}
		}
	}
	return ""
}

// onlyCalledBelow: every way into fn leads through the function named root (fn is root, a closure of such a
// function, or an unexported, non-escaping function all of whose static call sites are in such functions).
func onlyCalledBelow(p *Program, fn *ssa.Function, root string, seen map[*ssa.Function]bool) bool {
	if fn == nil {
		return false
	}
	if funcName(fn) == root {
		return true
	}
	if seen[fn] {
		return true
	}
	seen[fn] = true
	if fn.Parent() != nil {
		return onlyCalledBelow(p, fn.Parent(), root, seen)
	}
	ci := p.callIndex()
	if exportedAPI(fn) || ci.escapes[fn] || len(ci.sites[fn]) == 0 {
		return false
	}
	for _, site := range ci.sites[fn] {
		if !onlyCalledBelow(p, site.Parent(), root, seen) {
			return false
		}
	}
	return true
}
