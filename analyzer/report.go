package main

import (
	"encoding/json"
	"fmt"
	"os"
	"path/filepath"
	"sort"
	"strings"
)

type Verdict string

const (
	Discharged Verdict = "discharged"
	Violated   Verdict = "violated"
	Undecided  Verdict = "undecided"
)

// Obligation is one decided instance of a rule.  Key identifies the construct (rule + function +
// resolved callee/field + role/scenario), never a line number.
type Obligation struct {
	Rule    string   `json:"rule"`
	Key     string   `json:"key"`
	Verdict Verdict  `json:"verdict"`
	Pos     string   `json:"pos,omitempty"`
	Detail  string   `json:"detail,omitempty"`
	Witness []string `json:"witness,omitempty"`
	Config  string   `json:"config,omitempty"`
}

type RuleStat struct {
	Rule        string `json:"rule"`
	Instances   int    `json:"instances"`
	Floor       int    `json:"floor"`
	Discharged  int    `json:"discharged"`
	Violated    int    `json:"violated"`
	Undecided   int    `json:"undecided"`
	Description string `json:"description"`
}

// Report collects the obligations of one property run.
type Report struct {
	Property string
	obls     []Obligation
	seen     map[string]int
	rules    map[string]*RuleStat
	ruleOrd  []string
	analysed map[string]bool // functions analysed
	notes    []string
	config   string
}

func newReport(prop string) *Report {
	return &Report{Property: prop, seen: map[string]int{}, rules: map[string]*RuleStat{}, analysed: map[string]bool{}}
}

// Rule declares a rule with its vacuity floor and a one-line description.
func (r *Report) Rule(name string, floor int, desc string) {
	if _, ok := r.rules[name]; !ok {
		r.rules[name] = &RuleStat{Rule: name, Floor: floor, Description: desc}
		r.ruleOrd = append(r.ruleOrd, name)
	}
}

func (r *Report) Analysed(fns ...string) {
	for _, f := range fns {
		r.analysed[f] = true
	}
}

func (r *Report) Note(format string, a ...interface{}) {
	r.notes = append(r.notes, fmt.Sprintf(format, a...))
}

func (r *Report) add(o Obligation) {
	o.Config = r.config
	id := o.Rule + "|" + o.Key
	if i, ok := r.seen[id]; ok {
		// keep the worst verdict for a construct
		old := &r.obls[i]
		if rank(o.Verdict) > rank(old.Verdict) {
			*old = o
		}
		return
	}
	r.seen[id] = len(r.obls)
	r.obls = append(r.obls, o)
}

func rank(v Verdict) int {
	switch v {
	case Violated:
		return 2
	case Undecided:
		return 1
	}
	return 0
}

func (r *Report) OK(rule, key, pos, detail string) {
	r.add(Obligation{Rule: rule, Key: key, Verdict: Discharged, Pos: pos, Detail: detail})
}
func (r *Report) Bad(rule, key, pos, detail string, witness ...string) {
	r.add(Obligation{Rule: rule, Key: key, Verdict: Violated, Pos: pos, Detail: detail, Witness: witness})
}
func (r *Report) Unknown(rule, key, pos, detail string) {
	r.add(Obligation{Rule: rule, Key: key, Verdict: Undecided, Pos: pos, Detail: detail})
}

// ---- known findings ----

type KnownFinding struct {
	Property string `json:"property"`
	Rule     string `json:"rule"`
	Key      string `json:"key"`
	What     string `json:"what"`
	Status   string `json:"status"` // "known" or "fixed: property=<id> <commit> <what failed>"
}

func loadKnown(path string) ([]KnownFinding, error) {
	b, err := os.ReadFile(path)
	if err != nil {
		if os.IsNotExist(err) {
			return nil, nil
		}
		return nil, err
	}
	var k []KnownFinding
	if err := json.Unmarshal(b, &k); err != nil {
		return nil, err
	}
	return k, nil
}

// ---- finishing: floors, evidence, output lines ----

type finishOpts struct {
	tier      string
	seed      int64
	wall      float64
	evidence  string
	replayDir string
	known     []KnownFinding
	explain   string
	assume    []string
	configs   []string
	variants  []VariantResult
}

type VariantResult struct {
	Name     string `json:"name"`
	Kind     string `json:"kind"` // mutant | neutral
	Outcome  string `json:"outcome"`
	Expected string `json:"expected,omitempty"`
	Detail   string `json:"detail,omitempty"`
}

func (r *Report) stats() {
	for _, rs := range r.rules {
		rs.Instances, rs.Discharged, rs.Violated, rs.Undecided = 0, 0, 0, 0
	}
	for _, o := range r.obls {
		rs, ok := r.rules[o.Rule]
		if !ok {
			r.Rule(o.Rule, 0, "")
			rs = r.rules[o.Rule]
		}
		rs.Instances++
		switch o.Verdict {
		case Discharged:
			rs.Discharged++
		case Violated:
			rs.Violated++
		case Undecided:
			rs.Undecided++
		}
	}
}

// finish prints the verdict lines, writes evidence + replay files and returns the exit code.
func (r *Report) finish(o finishOpts) int {
	r.stats()
	// vacuity floors: a rule that matches fewer instances than confirmed by hand is undecided.
	for _, name := range r.ruleOrd {
		rs := r.rules[name]
		if rs.Instances < rs.Floor {
			r.add(Obligation{Rule: name, Key: "vacuity-floor", Verdict: Undecided,
				Detail: fmt.Sprintf("rule matched %d instance(s), fewer than the %d confirmed on the pinned tree: the rule's anchors no longer resolve, the check cannot pass vacuously", rs.Instances, rs.Floor)})
		}
	}
	r.stats()

	knownIdx := map[string]KnownFinding{}
	for _, k := range o.known {
		if k.Property == r.Property && k.Status == "known" {
			knownIdx[k.Rule+"|"+k.Key] = k
		}
	}
	sort.SliceStable(r.obls, func(i, j int) bool {
		if r.obls[i].Rule != r.obls[j].Rule {
			return r.obls[i].Rule < r.obls[j].Rule
		}
		return r.obls[i].Key < r.obls[j].Key
	})

	var bad []Obligation
	nKnown := 0
	discharged := 0
	for _, ob := range r.obls {
		switch ob.Verdict {
		case Discharged:
			discharged++
		default:
			if k, ok := knownIdx[ob.Rule+"|"+ob.Key]; ok && ob.Verdict == Violated {
				fmt.Printf("KNOWN-FINDING: property=%s %s %s — %s\n", r.Property, ob.Rule, ob.Key, k.What)
				nKnown++
				continue
			}
			bad = append(bad, ob)
		}
	}

	fmt.Printf("property %s tier=%s: %d obligations, %d discharged, %d known finding(s), %d violated/undecided; %d functions analysed\n",
		r.Property, o.tier, len(r.obls), discharged, nKnown, len(bad), len(r.analysed))
	for _, name := range r.ruleOrd {
		rs := r.rules[name]
		fmt.Printf("  rule %-28s instances=%-3d (floor %d) discharged=%d violated=%d undecided=%d\n", name, rs.Instances, rs.Floor, rs.Discharged, rs.Violated, rs.Undecided)
	}

	exit := 0
	if len(bad) > 0 {
		exit = 1
		_ = os.MkdirAll(o.replayDir, 0o755)
		// remove stale replay files of this property
		old, _ := filepath.Glob(filepath.Join(o.replayDir, r.Property+"-*.json"))
		for _, f := range old {
			os.Remove(f)
		}
		for i, ob := range bad {
			path := filepath.Join(o.replayDir, fmt.Sprintf("%s-%d.json", r.Property, i+1))
			b, _ := json.MarshalIndent(map[string]interface{}{"property": r.Property, "obligation": ob}, "", " ")
			_ = os.WriteFile(path, b, 0o644)
			fmt.Printf("%s %s [%s] %s: %s\n", strings.ToUpper(string(ob.Verdict)), ob.Rule, ob.Key, ob.Pos, ob.Detail)
			for _, w := range ob.Witness {
				fmt.Printf("      %s\n", w)
			}
			fmt.Printf("VIOLATION property=%s replay=%s\n", r.Property, path)
		}
	}

	// evidence
	samples := []Obligation{}
	// every non-discharged obligation plus a seed-rotated selection of discharged ones
	var dis []Obligation
	for _, ob := range r.obls {
		if ob.Verdict != Discharged {
			samples = append(samples, ob)
		} else {
			dis = append(dis, ob)
		}
	}
	if len(dis) > 0 {
		n := 12
		if len(dis) < n {
			n = len(dis)
		}
		start := 0
		if o.seed > 0 {
			start = int(o.seed % int64(len(dis)))
		}
		// spread over rules: stride through the sorted list
		stride := len(dis) / n
		if stride == 0 {
			stride = 1
		}
		for i := 0; i < n; i++ {
			samples = append(samples, dis[(start+i*stride)%len(dis)])
		}
	}
	var rules []RuleStat
	for _, name := range r.ruleOrd {
		rules = append(rules, *r.rules[name])
	}
	fns := make([]string, 0, len(r.analysed))
	for f := range r.analysed {
		fns = append(fns, f)
	}
	sort.Strings(fns)
	cov := map[string]interface{}{
		"explanation":        o.explain,
		"obligations":        len(r.obls),
		"discharged":         discharged,
		"known_findings":     nKnown,
		"rules":              rules,
		"functions_analysed": len(fns),
		"functions":          fns,
		"samples":            samples,
		"configs":            o.configs,
		"exhaustive":         true,
		"notes":              r.notes,
	}
	if len(o.variants) > 0 {
		cov["variants"] = o.variants
	}
	ev := map[string]interface{}{
		"property_id": r.Property,
		"tier":        o.tier,
		"seed":        o.seed,
		"level":       "other",
		"coverage":    cov,
		"assumptions": o.assume,
		"wall_s":      o.wall,
		"violations":  len(bad),
	}
	if o.evidence != "" {
		_ = os.MkdirAll(filepath.Dir(o.evidence), 0o755)
		b, _ := json.MarshalIndent(ev, "", " ")
		if err := os.WriteFile(o.evidence, b, 0o644); err != nil {
			fmt.Fprintln(os.Stderr, "cannot write evidence:", err)
			return 2
		}
	}
	return exit
}
