package main

// Allocator rules (DESIGN §3 C01.3, C04, C07, C11): DEFERFREE, ALLOC-RECORDED, INV-FL, CAPACITY,
// OVERFLOW-GATE, UNDO-JOURNAL.  Engines B (guard dominance) and E (who-may-call).

import (
	"fmt"
	"go/token"
	"go/types"
	"sort"
	"strings"

	"golang.org/x/tools/go/ssa"
)

type allocVocab struct {
	p                                  *Program
	has                                *ssa.Function // (pageSet).Has
	setAdd                             *ssa.Function // (*pageSet).Add
	flAddRegion, flAddRegions, flRemove *ssa.Function
	flAllocs                           map[*ssa.Function]bool
	fNew, fAllocated, fFreed           *types.Var // txAllocArea.new / allocated / freed
	fEndMarker                         *types.Var // allocArea.endMarker
	fTxEndMarker                       *types.Var // txAllocArea.endMarker
	fRegions, fAvail                   *types.Var // freelist.regions / avail
	fMaxPages, fMetaTotal              *types.Var
	fMoveToMeta                        *types.Var
	fOverflowEnabled                   *types.Var
	allocFromArea                      *ssa.Function
	tryGrow                            *ssa.Function
	freeRoots                          []*ssa.Function
	availFns                           map[*ssa.Function]bool
}

func newAllocVocab(p *Program) *allocVocab {
	v := &allocVocab{p: p,
		has:              p.Method("txfile", "pageSet", "Has"),
		setAdd:           p.Method("txfile", "pageSet", "Add"),
		flAddRegion:      p.Method("txfile", "freelist", "AddRegion"),
		flAddRegions:     p.Method("txfile", "freelist", "AddRegions"),
		flRemove:         p.Method("txfile", "freelist", "RemoveRegion"),
		flAllocs:         map[*ssa.Function]bool{},
		fNew:             p.FieldVar("txfile", "txAllocArea", "new"),
		fAllocated:       p.FieldVar("txfile", "txAllocArea", "allocated"),
		fFreed:           p.FieldVar("txfile", "txAllocArea", "freed"),
		fEndMarker:       p.FieldVar("txfile", "allocArea", "endMarker"),
		fTxEndMarker:     p.FieldVar("txfile", "txAllocArea", "endMarker"),
		fRegions:         p.FieldVar("txfile", "freelist", "regions"),
		fAvail:           p.FieldVar("txfile", "freelist", "avail"),
		fMaxPages:        p.FieldVar("txfile", "allocator", "maxPages"),
		fMetaTotal:       p.FieldVar("txfile", "allocator", "metaTotal"),
		fMoveToMeta:      p.FieldVar("txfile", "txAreaManageState", "moveToMeta"),
		fOverflowEnabled: p.FieldVar("txfile", "txAllocOptions", "overflowAreaEnabled"),
		allocFromArea:    p.Func("txfile", "allocFromArea"),
		tryGrow:          p.Method("txfile", "metaManager", "tryGrow"),
		availFns:         map[*ssa.Function]bool{},
	}
	for _, fn := range methodsOf(p, "txfile", "freelist", false) {
		if strings.HasPrefix(fn.Name(), "Alloc") {
			v.flAllocs[fn] = true
		}
	}
	if len(v.flAllocs) == 0 {
		panic(vocabMiss{"txfile.freelist.Alloc* methods"})
	}
	v.freeRoots = []*ssa.Function{
		p.Method("txfile", "dataAllocator", "Free"),
		p.Method("txfile", "walAllocator", "Free"),
		p.Method("txfile", "metaAllocator", "Free"),
		p.Method("txfile", "metaAllocator", "FreeAll"),
		p.Method("txfile", "metaAllocator", "FreeRegions"),
		p.Method("txfile", "metaManager", "Free"),
	}
	for _, t := range []string{"dataAllocator", "metaManager", "walAllocator", "metaAllocator"} {
		v.availFns[p.Method("txfile", t, "Avail")] = true
	}
	return v
}

// staticReach: functions reachable from roots through static calls and closures created on the way.
func staticReach(p *Program, roots ...*ssa.Function) map[*ssa.Function]bool {
	seen := map[*ssa.Function]bool{}
	var work []*ssa.Function
	push := func(f *ssa.Function) {
		if f != nil && !seen[f] && p.InRepo(f) && len(f.Blocks) > 0 {
			seen[f] = true
			work = append(work, f)
		}
	}
	for _, r := range roots {
		push(r)
	}
	for len(work) > 0 {
		f := work[len(work)-1]
		work = work[:len(work)-1]
		for _, b := range f.Blocks {
			for _, ins := range b.Instrs {
				for _, op := range ins.Operands(nil) {
					if op == nil || *op == nil {
						continue
					}
					if g, ok := (*op).(*ssa.Function); ok {
						push(g)
					}
				}
				if c, ok := ins.(ssa.CallInstruction); ok {
					push(c.Common().StaticCallee())
				}
			}
		}
	}
	return seen
}

func sortedFns(m map[*ssa.Function]bool) []*ssa.Function {
	var out []*ssa.Function
	for f := range m {
		out = append(out, f)
	}
	sort.Slice(out, func(i, j int) bool { return out[i].String() < out[j].String() })
	return out
}

// isFreelistMutation: instruction adds to / rewrites a freelist.
func (v *allocVocab) freelistAdd(ins ssa.Instruction) (string, bool) {
	if c, ok := ins.(ssa.CallInstruction); ok {
		switch c.Common().StaticCallee() {
		case v.flAddRegion:
			return "freelist.AddRegion", true
		case v.flAddRegions:
			return "freelist.AddRegions", true
		}
	}
	return "", false
}

// ruleDEFERFREE: frees are journaled, never recycled inside the freeing transaction, unless the page was
// allocated by this very transaction.
func ruleDEFERFREE(p *Program, rep *Report) {
	rep.Rule("DEFERFREE", 1, "below the Free entry points a page is returned to a freelist only under the true outcome of txAllocArea.new.Has(id) (page allocated in this transaction); everything else is only recorded in the freed set")
	v := newAllocVocab(p)
	reach := staticReach(p, v.freeRoots...)
	recorded := 0
	for _, fn := range sortedFns(reach) {
		// do not descend into the freelist implementation itself
		if fn == v.flAddRegion || fn == v.flAddRegions || strings.HasPrefix(funcName(fn), "(*txfile.freelist)") || strings.HasPrefix(funcName(fn), "(*txfile.regionList)") || strings.HasPrefix(funcName(fn), "(txfile.region") || strings.HasPrefix(funcName(fn), "txfile.merge") || strings.HasPrefix(funcName(fn), "txfile.optimize") {
			continue
		}
		rep.Analysed(funcName(fn))
		for _, b := range fn.Blocks {
			for _, ins := range b.Instrs {
				// journal writes: freed.Add
				if c, ok := ins.(*ssa.Call); ok && c.Common().StaticCallee() == v.setAdd {
					if fa, ok := c.Common().Args[0].(*ssa.FieldAddr); ok && fieldOfAddr(fa) == v.fFreed {
						recorded++
					}
				}
				what, ok := v.freelistAdd(ins)
				isStore := false
				if st, ok2 := ins.(*ssa.Store); ok2 {
					if f := addrField(st.Addr); f == v.fRegions {
						what, ok, isStore = "store to freelist.regions", true, true
					}
				}
				if !ok {
					continue
				}
				_ = isStore
				facts := p.ctxFacts(b)
				good := facts.every(func(c conj) bool {
					return c.has(func(a atom) bool {
						call := callTo(a.v, v.has)
						return call != nil && a.pol && recvField(call) == v.fNew
					})
				})
				key := funcName(fn) + "|" + what
				if good {
					rep.OK("DEFERFREE", key, p.InstrPos(ins), "guarded by txAllocArea.new.Has(id) == true")
				} else {
					rep.Bad("DEFERFREE", key, p.InstrPos(ins), what+" below a Free entry point is not guarded by txAllocArea.new.Has(id): a page freed in this transaction (possibly referenced by the committed state) becomes allocatable before the commit")
				}
			}
		}
	}
	if recorded == 0 {
		rep.Bad("DEFERFREE", "no-journal", "", "no Free entry point records the page in a txAllocArea.freed set")
	} else {
		rep.OK("DEFERFREE", "journal", "", fmt.Sprintf("%d site(s) record freed pages in txAllocArea.freed", recorded))
	}
}

// ruleALLOCRECORDED: every allocation primitive is called only from functions that journal the result.
func ruleALLOCRECORDED(p *Program, rep *Report) {
	rep.Rule("ALLOC-RECORDED", 3, "every call of a freelist.Alloc* primitive and every end-marker advance sits in a function that records the allocated pages in txAllocArea.allocated/new (undo/ownership journal)")
	v := newAllocVocab(p)
	journals := func(fn *ssa.Function) bool {
		found := false
		for f := range staticReach(p, fn) {
			for _, b := range f.Blocks {
				for _, ins := range b.Instrs {
					// direct call  x.allocated.Add(id)  or bound method value  area.new.Add
					for _, op := range ins.Operands(nil) {
						if op == nil || *op == nil {
							continue
						}
						if fa, ok := (*op).(*ssa.FieldAddr); ok {
							fv := fieldOfAddr(fa)
							if fv != v.fAllocated && fv != v.fNew {
								continue
							}
							switch x := ins.(type) {
							case *ssa.Call:
								if x.Common().StaticCallee() == v.setAdd {
									found = true
								}
							case *ssa.MakeClosure:
								if g, ok := x.Fn.(*ssa.Function); ok && strings.HasSuffix(g.Name(), "Add$bound") {
									found = true
								}
							}
						}
					}
				}
			}
		}
		return found
	}
	for _, fn := range p.SrcFuncs() {
		if fnPkgPath(fn) != modPath || v.flAllocs[fn] {
			continue
		}
		for _, b := range fn.Blocks {
			for _, ins := range b.Instrs {
				c, ok := ins.(ssa.CallInstruction)
				if !ok {
					continue
				}
				callee := c.Common().StaticCallee()
				isAlloc := v.flAllocs[callee]
				if !isAlloc {
					continue
				}
				// the freelist's own helpers may call each other
				if strings.HasPrefix(funcName(fn), "(*txfile.freelist)") {
					continue
				}
				outer := fn
				for outer.Parent() != nil {
					outer = outer.Parent()
				}
				key := funcName(outer) + "|" + callee.Name()
				rep.Analysed(funcName(outer))
				if v.allocationJournaled(c, 0) {
					rep.OK("ALLOC-RECORDED", key, p.InstrPos(ins), "allocation journaled in txAllocArea.allocated/new")
				} else {
					rep.Bad("ALLOC-RECORDED", key, p.InstrPos(ins), "pages taken from a freelist by "+callee.Name()+" are not recorded in txAllocArea.allocated/new: rollback cannot return them and ownership is lost")
				}
			}
		}
	}
	// end-marker advance primitive
	if journals(v.allocFromArea) {
		rep.OK("ALLOC-RECORDED", "txfile.allocFromArea|end-marker", p.Pos(v.allocFromArea.Pos()), "pages taken from the end of the file are recorded in txAllocArea.new")
	} else {
		rep.Bad("ALLOC-RECORDED", "txfile.allocFromArea|end-marker", p.Pos(v.allocFromArea.Pos()), "pages allocated by advancing the end marker are not recorded in txAllocArea.new")
	}
}

// staticReachLocal: fn plus its anonymous functions (closures), transitively.
func staticReachLocal(fn *ssa.Function) map[*ssa.Function]bool {
	out := map[*ssa.Function]bool{}
	var rec func(f *ssa.Function)
	rec = func(f *ssa.Function) {
		if out[f] {
			return
		}
		out[f] = true
		for _, a := range f.AnonFuncs {
			rec(a)
		}
	}
	rec(fn)
	return out
}

// derivesFrom: v is computed from a value satisfying base, through conversions, arithmetic and φ.
func derivesFrom(v ssa.Value, base func(ssa.Value) bool, depth int, seen map[ssa.Value]bool) bool {
	if v == nil || depth > 12 || seen[v] {
		return false
	}
	seen[v] = true
	if base(v) {
		return true
	}
	switch x := v.(type) {
	case *ssa.Convert:
		return derivesFrom(x.X, base, depth+1, seen)
	case *ssa.ChangeType:
		return derivesFrom(x.X, base, depth+1, seen)
	case *ssa.BinOp:
		return derivesFrom(x.X, base, depth+1, seen) || derivesFrom(x.Y, base, depth+1, seen)
	case *ssa.Phi:
		for _, e := range x.Edges {
			if derivesFrom(e, base, depth+1, seen) {
				return true
			}
		}
	case *ssa.Extract:
		return derivesFrom(x.Tuple, base, depth+1, seen)
	}
	return false
}

// endMarkerStores enumerates all stores to an allocArea.endMarker (direct, and through the pointer
// parameter of allocFromArea).
type markerStore struct {
	fn    *ssa.Function
	ins   *ssa.Store
	viaPtr bool
}

func (v *allocVocab) endMarkerStores() []markerStore {
	var out []markerStore
	for _, fn := range v.p.SrcFuncs() {
		if fnPkgPath(fn) != modPath {
			continue
		}
		for _, b := range fn.Blocks {
			for _, ins := range b.Instrs {
				st, ok := ins.(*ssa.Store)
				if !ok {
					continue
				}
				if fa, ok := st.Addr.(*ssa.FieldAddr); ok && fieldOfAddr(fa) == v.fEndMarker {
					out = append(out, markerStore{fn, st, false})
				}
				// *marker = id where marker is a *PageID parameter that callers bind to &x.endMarker
				if par, ok := st.Addr.(*ssa.Parameter); ok && fn == v.allocFromArea {
					_ = par
					out = append(out, markerStore{fn, st, true})
				}
			}
		}
	}
	return out
}

func (v *allocVocab) mutatesRegionsNonAdding(root *ssa.Function) bool {
	for fn := range staticReach(v.p, root) {
		if v.mutatesRegionsNonAddingLocal(fn) {
			return true
		}
	}
	return false
}

func (v *allocVocab) mutatesRegionsNonAddingLocal(fn *ssa.Function) bool {
	if fn == v.flAddRegion || fn == v.flAddRegions {
		return false // adding is not trimming
	}
	for _, b := range fn.Blocks {
		for _, ins := range b.Instrs {
			if st, ok := ins.(*ssa.Store); ok {
				if addrField(st.Addr) == v.fRegions {
					return true
				}
				// whole freelist replaced
				if fa, ok := st.Addr.(*ssa.FieldAddr); ok && fieldOfAddr(fa).Name() == "freelist" && fieldOwner(v.p, fieldOfAddr(fa)) == "allocArea" {
					return true
				}
			}
			if c, ok := ins.(ssa.CallInstruction); ok && c.Common().StaticCallee() == v.flRemove {
				return true
			}
		}
	}
	return false
}

// ruleINVFL: "free regions lie below the area's end marker" is preserved by every end-marker store.
func ruleINVFL(p *Program, rep *Report) {
	rep.Rule("INV-FL", 6, "every store to allocArea.endMarker either only raises it (guarded by old < new, or old + n), or sits in a function that also rewrites/trims the area's freelist; a lowering store without trim leaves free regions above the marker (same id handed out twice)")
	v := newAllocVocab(p)
	for _, ms := range v.endMarkerStores() {
		fn, st := ms.fn, ms.ins
		rep.Analysed(funcName(fn))
		key := funcName(fn) + "|endMarker="
		pos := p.InstrPos(st)
		isMarkerLoad := func(x ssa.Value) bool {
			x = stripConv(x)
			if u, ok := x.(*ssa.UnOp); ok && u.Op == token.MUL {
				if ms.viaPtr {
					return u.X == st.Addr
				}
				if fa, ok := u.X.(*ssa.FieldAddr); ok {
					return fieldOfAddr(fa) == v.fEndMarker
				}
			}
			return false
		}
		// (1) advance by construction: value = old + unsigned increments
		if b, ok := stripConv(st.Val).(*ssa.BinOp); ok || isPhiOfAdds(st.Val) {
			_ = b
			if onlyAddsOnto(st.Val, isMarkerLoad, map[ssa.Value]bool{}) {
				rep.OK("INV-FL", key+"advance", pos, "advance: new marker = old marker + increments")
				continue
			}
		}
		// (2) guarded raise: dominated by old < new where new is the stored value (or the same field of another area)
		facts := p.ctxFacts(st.Block())
		raised := facts.every(func(c conj) bool {
			return c.has(func(a atom) bool {
				op, x, y, ok := cmpAtom(a)
				if !ok {
					return false
				}
				switch op {
				case token.LSS:
					return isMarkerLoad(x) && sameValueOrField(y, st.Val)
				case token.GTR:
					return isMarkerLoad(y) && sameValueOrField(x, st.Val)
				}
				return false
			})
		})
		if raised {
			rep.OK("INV-FL", key+"guarded-raise", pos, "raise guarded by old < new")
			continue
		}
		// (3) wholesale replacement / lowering with trim in the same function
		if v.mutatesRegionsNonAdding(fn) {
			rep.OK("INV-FL", key+"with-freelist-rewrite", pos, "the function also rewrites or trims the area's free regions")
			continue
		}
		rep.Bad("INV-FL", key+"lowering-without-trim", pos, "store to allocArea.endMarker in "+funcName(fn)+" can lower the marker, and the function neither replaces nor trims the area's free regions: regions at or above the restored marker stay in the freelist and the same page id can be handed out twice")
	}
}

func isPhiOfAdds(v ssa.Value) bool { _, ok := stripConv(v).(*ssa.Phi); return ok }

// onlyAddsOnto: v = base (+ anything unsigned)*, following φ edges (every edge must qualify).
func onlyAddsOnto(v ssa.Value, base func(ssa.Value) bool, seen map[ssa.Value]bool) bool {
	v = stripConv(v)
	if seen[v] {
		return true
	}
	seen[v] = true
	if base(v) {
		return true
	}
	switch x := v.(type) {
	case *ssa.BinOp:
		if x.Op == token.ADD {
			return onlyAddsOnto(x.X, base, seen) || onlyAddsOnto(x.Y, base, seen)
		}
	case *ssa.Phi:
		for _, e := range x.Edges {
			if !onlyAddsOnto(e, base, seen) {
				return false
			}
		}
		return true
	}
	return false
}

// sameValueOrField: a and b are the same SSA value or loads of the same field path.
func sameValueOrField(a, b ssa.Value) bool {
	a, b = stripConv(a), stripConv(b)
	if a == b {
		return true
	}
	fa, fb := loadedFieldPath(a), loadedFieldPath(b)
	return fa != "" && fa == fb
}

// loadedFieldPath: textual path of field objects for a load like a.data.endMarker -> "data.endMarker".
func loadedFieldPath(v ssa.Value) string {
	u, ok := stripConv(v).(*ssa.UnOp)
	if !ok || u.Op != token.MUL {
		return ""
	}
	var parts []string
	x := u.X
	for {
		fa, ok := x.(*ssa.FieldAddr)
		if !ok {
			break
		}
		parts = append([]string{fieldOfAddr(fa).Name()}, parts...)
		x = fa.X
	}
	if len(parts) == 0 {
		return ""
	}
	return fmt.Sprintf("%p.", baseIdentity(x)) + strings.Join(parts, ".")
}

// ruleCAPACITY: end markers only advance under a capacity guard or the overflow flag.
func ruleCAPACITY(p *Program, rep *Report) {
	rep.Rule("CAPACITY", 3, "every call that advances an end marker (allocFromArea) is dominated by the pass edge of a capacity test derived from allocator.maxPages / Avail(), or by the true outcome of the overflow flag")
	rep.Rule("OVERFLOW-GATE", 2, "the overflow flag of tryGrow is, at every call site, the constant false or a load of txAllocOptions.overflowAreaEnabled, which is stored only from TxOptions.EnableOverflowArea")
	v := newAllocVocab(p)
	capDerived := func(x ssa.Value) bool {
		return derivesFrom(x, func(b ssa.Value) bool {
			if loadedField(b) == v.fMaxPages {
				return true
			}
			if c, ok := b.(*ssa.Call); ok && v.availFns[c.Common().StaticCallee()] {
				return true
			}
			return false
		}, 0, map[ssa.Value]bool{})
	}
	for _, fn := range p.SrcFuncs() {
		if fnPkgPath(fn) != modPath {
			continue
		}
		for _, b := range fn.Blocks {
			for _, ins := range b.Instrs {
				c, ok := ins.(ssa.CallInstruction)
				if !ok || c.Common().StaticCallee() != v.allocFromArea {
					continue
				}
				rep.Analysed(funcName(fn))
				key := funcName(fn) + "|allocFromArea"
				facts := p.ctxFacts(b)
				how := ""
				good := facts.every(func(cj conj) bool {
					return cj.has(func(a atom) bool {
						// capacity test passed:  !(avail < n)  i.e.  avail >= n
						if op, x, y, ok := cmpAtom(a); ok {
							switch op {
							case token.GEQ, token.GTR:
								if capDerived(x) {
									how = "capacity test"
									return true
								}
							case token.LEQ, token.LSS:
								if capDerived(y) {
									how = "capacity test"
									return true
								}
							}
						}
						// overflow flag parameter true
						if par, ok := a.v.(*ssa.Parameter); ok && a.pol && par.Parent() == v.tryGrow {
							how = "overflow flag"
							return true
						}
						if fv, ok := a.v.(*ssa.FreeVar); ok && a.pol {
							// closure inside tryGrow capturing the flag
							_ = fv
							how = "overflow flag (captured)"
							return fn.Parent() == v.tryGrow
						}
						return false
					})
				})
				if good {
					rep.OK("CAPACITY", key, p.InstrPos(ins), "guarded by "+how)
				} else {
					rep.Bad("CAPACITY", key, p.InstrPos(ins), "end marker advanced without a dominating capacity test (maxPages / Avail) or overflow flag: a bounded file can grow past its maximum size")
				}
			}
		}
	}
	// capacity arithmetic: `maxPages - x` on unsigned values must be guarded by x < / <= maxPages,
	// otherwise it wraps once the end marker lies beyond a (reduced) limit and the test passes vacuously
	for _, fn := range p.SrcFuncs() {
		if fnPkgPath(fn) != modPath {
			continue
		}
		for _, b := range fn.Blocks {
			for _, ins := range b.Instrs {
				bo, ok := ins.(*ssa.BinOp)
				if !ok || bo.Op != token.SUB || loadedField(bo.X) != v.fMaxPages {
					continue
				}
				if bt, ok := bo.Type().Underlying().(*types.Basic); !ok || bt.Info()&types.IsUnsigned == 0 {
					continue
				}
				rep.Analysed(funcName(fn))
				key := funcName(fn) + "|maxPages-x"
				guarded := p.ctxFacts(b).every(func(cj conj) bool {
					return cj.has(func(a atom) bool {
						op, x, y, ok := cmpAtom(a)
						if !ok {
							return false
						}
						same := func(p, q ssa.Value) bool { return sameValueOrField(p, q) || stripConv(p) == stripConv(q) }
						switch op {
						case token.LSS, token.LEQ: // y' < maxPages
							return same(x, bo.Y) && loadedField(y) == v.fMaxPages
						case token.GTR, token.GEQ: // maxPages > y'
							return loadedField(x) == v.fMaxPages && same(y, bo.Y)
						}
						return false
					})
				})
				if guarded {
					rep.OK("CAPACITY", key, p.InstrPos(ins), "unsigned subtraction guarded by x < maxPages")
				} else {
					rep.Bad("CAPACITY", key, p.InstrPos(ins), "`maxPages - x` is computed on unsigned values without a dominating x < maxPages test: when the end marker lies beyond the limit (file shrunk on open) the difference wraps around, the capacity test passes and the end marker is advanced past the maximum size without the overflow area being enabled")
				}
			}
		}
	}
	// OVERFLOW-GATE
	for _, fn := range p.SrcFuncs() {
		for _, b := range fn.Blocks {
			for _, ins := range b.Instrs {
				c, ok := ins.(ssa.CallInstruction)
				if !ok || c.Common().StaticCallee() != v.tryGrow {
					continue
				}
				args := c.Common().Args
				flag := args[len(args)-1]
				key := funcName(fn) + "|tryGrow-flag"
				if bv, ok := constBoolOf(flag); ok && !bv {
					rep.OK("OVERFLOW-GATE", key+"=false", p.InstrPos(ins), "constant false")
				} else if loadedField(flag) == v.fOverflowEnabled {
					rep.OK("OVERFLOW-GATE", key+"=option", p.InstrPos(ins), "load of txAllocOptions.overflowAreaEnabled")
				} else {
					rep.Bad("OVERFLOW-GATE", key, p.InstrPos(ins), "overflow flag of tryGrow is neither false nor the transaction's overflowAreaEnabled option")
				}
			}
		}
	}
	// the option is only ever computed from TxOptions.EnableOverflowArea (or a constant): backward data slice of
	// every value stored into it, parameters followed to every call site
	enable := p.FieldVar("txfile", "TxOptions", "EnableOverflowArea")
	all := map[*ssa.Function]bool{}
	for _, fn := range p.SrcFuncs() {
		all[fn] = true
	}
	nst := 0
	for _, fn := range p.SrcFuncs() {
		if fnPkgPath(fn) != modPath {
			continue
		}
		for _, b := range fn.Blocks {
			for _, ins := range b.Instrs {
				st, ok := ins.(*ssa.Store)
				if !ok || addrField(st.Addr) != v.fOverflowEnabled {
					continue
				}
				nst++
				key := funcName(fn) + "|overflowAreaEnabled="
				sl := &slicer{p: p, fields: map[*types.Var]bool{}, seen: map[sliceKey]bool{}, dataOnly: true, within: all}
				sl.walk(st.Val, 0, nil, 0)
				var foreign []string
				for f := range sl.fields {
					if f != enable && f != v.fOverflowEnabled {
						foreign = append(foreign, fieldOwner(p, f)+"."+f.Name())
					}
				}
				sort.Strings(foreign)
				switch {
				case len(foreign) > 0:
					rep.Bad("OVERFLOW-GATE", key, p.InstrPos(ins), "overflowAreaEnabled is computed from something other than the transaction option EnableOverflowArea: "+strings.Join(foreign, ", "))
				case sl.fields[enable]:
					rep.OK("OVERFLOW-GATE", key, p.InstrPos(ins), "computed from TxOptions.EnableOverflowArea only")
				default:
					if bv, isC := constBoolOf(st.Val); isC && !bv {
						rep.OK("OVERFLOW-GATE", key, p.InstrPos(ins), "constant false")
					} else {
						rep.Bad("OVERFLOW-GATE", key, p.InstrPos(ins), "overflowAreaEnabled is set without reference to the transaction option EnableOverflowArea (a transaction could use the overflow area although it did not ask for it)")
					}
				}
			}
		}
	}
	if nst == 0 {
		rep.Unknown("OVERFLOW-GATE", "overflowAreaEnabled=", "", "no store to txAllocOptions.overflowAreaEnabled found (anchor lost)")
	}
}

// ruleUNDOJOURNAL: every pre-commit mutation of allocator state is paired with a journal entry that
// Rollback reads.
func ruleUNDOJOURNAL(p *Program, rep *Report) {
	rep.Rule("UNDO-JOURNAL", 8, "pre-commit mutations of allocator.metaTotal / meta freelist growth are journaled in txAreaManageState.moveToMeta in the same function, end markers are snapshotted by makeTxAllocState, and allocator.Rollback reads every journal and writes the class back")
	v := newAllocVocab(p)
	commitFns := staticReach(p, p.Method("txfile", "allocator", "Commit"))
	loaders := staticReach(p, p.Func("txfile", "readAllocatorState"))
	rollback := p.Method("txfile", "allocator", "Rollback")
	rbReach := staticReach(p, rollback)
	// the journal: every field of txAreaManageState
	journalFields := map[*types.Var]bool{}
	js := p.Struct("txfile", "txAreaManageState")
	for i := 0; i < js.NumFields(); i++ {
		journalFields[js.Field(i)] = true
	}
	// (a) metaTotal increments outside commit/rollback/loader must be journaled in the same function
	for _, fn := range p.SrcFuncs() {
		if fnPkgPath(fn) != modPath || commitFns[fn] || loaders[fn] || rbReach[fn] {
			continue
		}
		for _, b := range fn.Blocks {
			for _, ins := range b.Instrs {
				st, ok := ins.(*ssa.Store)
				if !ok || addrField(st.Addr) != v.fMetaTotal {
					continue
				}
				rep.Analysed(funcName(fn))
				journaled := false
				outer := fn
				for outer.Parent() != nil {
					outer = outer.Parent()
				}
				var scan []*ssa.BasicBlock
				for g := range staticReach(p, outer) {
					if fnPkgPath(g) == modPath {
						scan = append(scan, g.Blocks...)
					}
				}
				scan = append(scan, fn.Blocks...)
				for _, bb := range scan {
					for _, i2 := range bb.Instrs {
						if c, ok := i2.(ssa.CallInstruction); ok && len(c.Common().Args) > 0 {
							// journal.Add(...): the journal may be handed to a shared helper by its callers
							if addrIsFieldEverywhere(p, c.Common().Args[0], func(f *types.Var) bool { return journalFields[f] }, 0) {
								journaled = true
							}
						}
						if st2, ok := i2.(*ssa.Store); ok && journalFields[addrField(st2.Addr)] {
							journaled = true
						}
					}
				}
				key := funcName(fn) + "|metaTotal+="
				if journaled {
					rep.OK("UNDO-JOURNAL", key, p.InstrPos(ins), "journaled in txAreaManageState")
				} else {
					rep.Bad("UNDO-JOURNAL", key, p.InstrPos(ins), "allocator.metaTotal (and the meta freelist) grow before commit without an undo-journal entry: Rollback cannot take the pages out of the meta area again")
				}
			}
		}
	}
	// (b) snapshots of both end markers
	mk := p.Method("txfile", "allocator", "makeTxAllocState")
	loads := 0
	for _, b := range mk.Blocks {
		for _, ins := range b.Instrs {
			if u, ok := ins.(*ssa.UnOp); ok && u.Op == token.MUL {
				if fa, ok := u.X.(*ssa.FieldAddr); ok && fieldOfAddr(fa) == v.fEndMarker {
					loads++
				}
			}
		}
	}
	if loads >= 2 {
		rep.OK("UNDO-JOURNAL", "makeTxAllocState|end-marker-snapshots", p.Pos(mk.Pos()), "data and meta end markers are snapshotted at transaction begin")
	} else {
		rep.Bad("UNDO-JOURNAL", "makeTxAllocState|end-marker-snapshots", p.Pos(mk.Pos()), fmt.Sprintf("only %d end-marker snapshot(s) taken at transaction begin (need data and meta)", loads))
	}
	// (c) Rollback reads the journals and writes the classes back
	eff := p.Effects().Of(rollback)
	type needT struct {
		f     *types.Var
		write bool
		what  string
	}
	need := []needT{}
	for i := 0; i < js.NumFields(); i++ {
		need = append(need, needT{js.Field(i), false, "reads txAreaManageState." + js.Field(i).Name()})
	}
	need = append(need, []needT{
		{v.fAllocated, false, "reads txAllocArea.allocated"},
		{v.fTxEndMarker, false, "reads the end-marker snapshot"},
		{v.fEndMarker, true, "restores allocArea.endMarker"},
		{v.fMetaTotal, true, "restores allocator.metaTotal"},
	}...)
	for _, n := range need {
		m := eff.refs
		if n.write {
			m = eff.mods
		}
		key := "allocator.Rollback|" + n.what
		if m[n.f] {
			rep.OK("UNDO-JOURNAL", key, p.Pos(rollback.Pos()), "")
		} else {
			rep.Bad("UNDO-JOURNAL", key, p.Pos(rollback.Pos()), "allocator.Rollback no longer "+n.what)
		}
	}
	// (d) every journal entry is undone: in each loop over a journal the meta page total and the meta free
	// list are changed on every iteration (no entry is skipped)
	effs := p.Effects()
	for _, f := range sortedFns(rbReach) {
		var pd map[*ssa.BasicBlock]map[*ssa.BasicBlock]bool
		for _, b := range f.Blocks {
			for _, ins := range b.Instrs {
				ia, ok := ins.(*ssa.IndexAddr)
				if !ok {
					continue
				}
				jf := loadedField(ia.X)
				if jf == nil || !journalFields[jf] {
					continue
				}
				if pd == nil {
					pd = postDominators(f)
				}
				for _, what := range []struct {
					f    *types.Var
					name string
				}{{v.fMetaTotal, "allocator.metaTotal"}, {v.fRegions, "the meta free list"}} {
					every := false
					for _, b2 := range f.Blocks {
						if b2 != b && !pd[b][b2] {
							continue
						}
						for _, in2 := range b2.Instrs {
							if st, ok := in2.(*ssa.Store); ok && addrField(st.Addr) == what.f {
								every = true
							}
							if c, ok := in2.(ssa.CallInstruction); ok {
								if sc := c.Common().StaticCallee(); sc != nil && p.InRepo(sc) {
									if e := effs.Of(sc); e != nil && e.mods[what.f] {
										every = true
									}
								}
							}
						}
					}
					key := "allocator.Rollback|every-entry|" + jf.Name() + "|" + what.name
					if every {
						rep.OK("UNDO-JOURNAL", key, p.InstrPos(ins), "undone for every journal entry")
					} else {
						rep.Bad("UNDO-JOURNAL", key, p.InstrPos(ins), "the undo loop over txAreaManageState."+jf.Name()+" does not restore "+what.name+" for every entry (an entry can be skipped): after an aborted transaction the meta area keeps counting pages it no longer owns")
					}
				}
			}
		}
	}
	// returns allocated pages to the freelists
	addsBack := false
	for f := range rbReach {
		for _, b := range f.Blocks {
			for _, ins := range b.Instrs {
				if _, ok := v.freelistAdd(ins); ok {
					addsBack = true
				}
			}
		}
	}
	if addsBack {
		rep.OK("UNDO-JOURNAL", "allocator.Rollback|returns-allocated-regions", p.Pos(rollback.Pos()), "")
	} else {
		rep.Bad("UNDO-JOURNAL", "allocator.Rollback|returns-allocated-regions", p.Pos(rollback.Pos()), "allocator.Rollback no longer returns the allocated regions to the freelists")
	}
}

// baseIdentity: go/ssa does no CSE — a parameter captured by a closure is spilled to an Alloc and every
// use reloads it.  Loads of a cell that is stored exactly once are the same value.
func baseIdentity(x ssa.Value) ssa.Value {
	if u, ok := x.(*ssa.UnOp); ok && u.Op == token.MUL {
		if a, ok := u.X.(*ssa.Alloc); ok && a.Referrers() != nil {
			stores := 0
			for _, r := range *a.Referrers() {
				if st, ok := r.(*ssa.Store); ok && st.Addr == a {
					stores++
				}
			}
			if stores == 1 {
				return a
			}
		}
	}
	return x
}

// ---- PRECOMMIT-NO-ALIAS (C07, C14): before the commit point nothing may write through memory that
// aliases the allocator's live free lists.  Summaries: mutatesParam(f,i) — f stores through parameter i
// (element/field stores, or hands it to a callee that does); mayReturnAlias(f,i) — f can return
// parameter i (or a slice of it) unchanged.

type aliasSummaries struct {
	p       *Program
	mut     map[*ssa.Function]map[int]bool
	ret     map[*ssa.Function]map[int]bool
	visited map[*ssa.Function]bool
}

func paramIndex(fn *ssa.Function, v ssa.Value) int {
	for i, p := range fn.Params {
		if ssa.Value(p) == v {
			return i
		}
	}
	return -1
}

// rootParam: v is parameter i of fn, possibly re-sliced / converted / merged through φ.
func rootParams(fn *ssa.Function, v ssa.Value, seen map[ssa.Value]bool, out map[int]bool) {
	if v == nil || seen[v] {
		return
	}
	seen[v] = true
	if i := paramIndex(fn, v); i >= 0 {
		out[i] = true
		return
	}
	switch x := v.(type) {
	case *ssa.Slice:
		rootParams(fn, x.X, seen, out)
	case *ssa.Convert:
		rootParams(fn, x.X, seen, out)
	case *ssa.ChangeType:
		rootParams(fn, x.X, seen, out)
	case *ssa.Phi:
		for _, e := range x.Edges {
			rootParams(fn, e, seen, out)
		}
	case *ssa.IndexAddr:
		rootParams(fn, x.X, seen, out)
	case *ssa.FieldAddr:
		rootParams(fn, x.X, seen, out)
	case *ssa.UnOp:
		// load of a spilled parameter
		if a, ok := x.X.(*ssa.Alloc); ok && a.Referrers() != nil {
			for _, r := range *a.Referrers() {
				if st, ok := r.(*ssa.Store); ok && st.Addr == ssa.Value(a) {
					rootParams(fn, st.Val, seen, out)
				}
			}
		}
	case *ssa.Call:
		// append(param[:k], ...) may alias param's backing array
		if bi, ok := x.Common().Value.(*ssa.Builtin); ok && bi.Name() == "append" && len(x.Common().Args) > 0 {
			rootParams(fn, x.Common().Args[0], seen, out)
		}
	}
}

func (s *aliasSummaries) compute(fn *ssa.Function, depth int) {
	if s.visited[fn] || len(fn.Blocks) == 0 || depth > 4 {
		return
	}
	s.visited[fn] = true
	s.mut[fn] = map[int]bool{}
	s.ret[fn] = map[int]bool{}
	for _, b := range fn.Blocks {
		for _, ins := range b.Instrs {
			switch x := ins.(type) {
			case *ssa.Store:
				switch x.Addr.(type) {
				case *ssa.IndexAddr, *ssa.FieldAddr:
					rootParams(fn, x.Addr, map[ssa.Value]bool{}, s.mut[fn])
				}
			case *ssa.Return:
				for _, r := range x.Results {
					if _, isSlice := r.Type().Underlying().(*types.Slice); isSlice {
						rootParams(fn, r, map[ssa.Value]bool{}, s.ret[fn])
					}
				}
			case ssa.CallInstruction:
				sc := x.Common().StaticCallee()
				if sc == nil || !s.p.InRepo(sc) {
					continue
				}
				s.compute(sc, depth+1)
				for i, a := range x.Common().Args {
					if s.mut[sc][i] {
						rootParams(fn, a, map[ssa.Value]bool{}, s.mut[fn])
					}
				}
			}
		}
	}
}

func rulePRECOMMITNOALIAS(p *Program, rep *Report) {
	rep.Rule("PRECOMMIT-NO-ALIAS", 2, "in the commit-preparation code (allocator.fileCommitAlloc) a value that may alias the allocator's live free list (a load of freelist.regions, or the result of a helper that can return its argument unchanged) is never handed to code that writes through it: the live allocator state must not change before the commit point")
	fn := p.Method("txfile", "allocator", "fileCommitAlloc")
	v := newAllocVocab(p)
	sum := &aliasSummaries{p: p, mut: map[*ssa.Function]map[int]bool{}, ret: map[*ssa.Function]map[int]bool{}, visited: map[*ssa.Function]bool{}}
	rep.Analysed(funcName(fn))
	// tainted: may alias live freelist storage
	tainted := map[ssa.Value]bool{}
	changed := true
	for changed {
		changed = false
		for _, b := range fn.Blocks {
			for _, ins := range b.Instrs {
				val, ok := ins.(ssa.Value)
				if !ok || tainted[val] {
					continue
				}
				t := false
				switch x := ins.(type) {
				case *ssa.UnOp:
					t = loadedField(x) == v.fRegions
				case *ssa.Slice:
					t = tainted[x.X]
				case *ssa.Phi:
					for _, e := range x.Edges {
						t = t || tainted[e]
					}
				case *ssa.ChangeType:
					t = tainted[x.X]
				case *ssa.Call:
					if sc := x.Common().StaticCallee(); sc != nil && p.InRepo(sc) {
						sum.compute(sc, 0)
						for i, a := range x.Common().Args {
							if tainted[a] && sum.ret[sc][i] {
								t = true
							}
						}
					}
				case *ssa.Extract:
					t = tainted[x.Tuple]
				}
				if t {
					tainted[val] = true
					changed = true
				}
			}
		}
	}
	nCalls := 0
	for _, b := range fn.Blocks {
		for _, ins := range b.Instrs {
			switch x := ins.(type) {
			case ssa.CallInstruction:
				sc := x.Common().StaticCallee()
				if sc == nil || !p.InRepo(sc) {
					continue
				}
				sum.compute(sc, 0)
				for i, a := range x.Common().Args {
					if _, isSlice := a.Type().Underlying().(*types.Slice); !isSlice {
						continue
					}
					if !sum.mut[sc][i] {
						continue
					}
					nCalls++
					key := fmt.Sprintf("allocator.fileCommitAlloc|%s#%d", sc.Name(), i)
					if tainted[a] {
						rep.Bad("PRECOMMIT-NO-ALIAS", key, p.InstrPos(ins), "a list that can alias the allocator's live free list is passed to "+sc.Name()+", which modifies its argument in place: the in-memory allocator changes before the commit point and a failed commit / rollback does not restore it")
					} else {
						rep.OK("PRECOMMIT-NO-ALIAS", key, p.InstrPos(ins), "argument is freshly built (no alias of the live free list)")
					}
				}
			case *ssa.Store:
				if ia, ok := x.Addr.(*ssa.IndexAddr); ok && tainted[ia.X] {
					rep.Bad("PRECOMMIT-NO-ALIAS", "allocator.fileCommitAlloc|element-store", p.InstrPos(ins), "commit preparation writes through the live free list")
				}
			}
		}
	}
	if nCalls == 0 {
		rep.Unknown("PRECOMMIT-NO-ALIAS", "allocator.fileCommitAlloc|anchor", p.Pos(fn.Pos()), "no in-place list consumer found in fileCommitAlloc (anchor lost)")
	} else {
		// the merge helper itself: report what it may return
		merge := p.Func("txfile", "mergeRegionLists")
		sum.compute(merge, 0)
		if len(sum.ret[merge]) == 0 {
			rep.OK("PRECOMMIT-NO-ALIAS", "mergeRegionLists|fresh-result", p.Pos(merge.Pos()), "never returns one of its arguments")
		} else {
			rep.OK("PRECOMMIT-NO-ALIAS", "mergeRegionLists|may-return-argument", p.Pos(merge.Pos()), "may return an argument unchanged; call sites checked for aliasing")
		}
	}
}

// derivedFrom: forward closure of the values computed from v inside its function (fields, conversions,
// copies through locals).
func forwardDerived(v ssa.Value) map[ssa.Value]bool {
	d := map[ssa.Value]bool{v: true}
	work := []ssa.Value{v}
	add := func(x ssa.Value) {
		if x != nil && !d[x] {
			d[x] = true
			work = append(work, x)
		}
	}
	for len(work) > 0 {
		x := work[len(work)-1]
		work = work[:len(work)-1]
		refs := x.Referrers()
		if refs == nil {
			continue
		}
		for _, r := range *refs {
			switch y := r.(type) {
			case *ssa.Field:
				add(y)
			case *ssa.FieldAddr:
				add(y)
			case *ssa.Extract:
				add(y)
			case *ssa.Convert:
				add(y)
			case *ssa.ChangeType:
				add(y)
			case *ssa.Phi:
				add(y)
			case *ssa.UnOp:
				add(y)
			case *ssa.IndexAddr:
				add(y)
			case *ssa.Store:
				if d[y.Val] {
					// the cell now holds a derived value: its address (and loads from it) are derived
					add(y.Addr)
				}
			}
		}
	}
	return d
}

// journalsValue: inside its function, some value derived from v is recorded in txAllocArea.allocated/new —
// x.allocated.Add(derived), derived.EachPage(x.new.Add), or a helper called with a derived argument does.
func (v *allocVocab) journalsValue(val ssa.Value, depth int) bool {
	if depth > 2 {
		return false
	}
	d := forwardDerived(val)
	var isJournalAddr func(x ssa.Value) bool
	isJournalAddr = func(x ssa.Value) bool {
		switch a := x.(type) {
		case *ssa.FieldAddr:
			return fieldOfAddr(a) == v.fAllocated || fieldOfAddr(a) == v.fNew
		case *ssa.Parameter:
			// the journal to record in is handed to the helper: every caller must pass one
			pi := paramIndex(a.Parent(), a)
			sites := v.p.callIndex().sites[a.Parent()]
			if pi < 0 || len(sites) == 0 {
				return false
			}
			for _, site := range sites {
				if pi >= len(site.Common().Args) {
					return false
				}
				fa, ok := site.Common().Args[pi].(*ssa.FieldAddr)
				if !ok || !(fieldOfAddr(fa) == v.fAllocated || fieldOfAddr(fa) == v.fNew) {
					return false
				}
			}
			return true
		}
		return false
	}
	for x := range d {
		refs := x.Referrers()
		if refs == nil {
			continue
		}
		for _, r := range *refs {
			c, ok := r.(ssa.CallInstruction)
			if !ok {
				continue
			}
			args := c.Common().Args
			sc := c.Common().StaticCallee()
			// x.allocated.Add(derived)
			if sc == v.setAdd && len(args) == 2 && isJournalAddr(args[0]) && d[args[1]] {
				return true
			}
			// derived.EachPage(area.new.Add) — a bound Add of a journal set handed to a call on the derived value
			for _, a := range args {
				if mc, ok := resolveFuncValue(a, 0).(*ssa.MakeClosure); ok {
					if g, ok := mc.Fn.(*ssa.Function); ok && strings.HasSuffix(g.Name(), "Add$bound") && len(mc.Bindings) == 1 && isJournalAddr(mc.Bindings[0]) {
						return true
					}
				}
			}
			// a repository helper receives the derived value
			if sc != nil && v.p.InRepo(sc) && len(sc.Blocks) > 0 && sc != v.setAdd {
				for i, a := range args {
					if d[a] && i < len(sc.Params) && v.journalsValue(sc.Params[i], depth+1) {
						return true
					}
				}
			}
		}
	}
	return false
}

// allocationJournaled: the pages a freelist allocation primitive hands out are recorded: either its result
// flows into the journal, or the callback it is given records the region it receives.
func (v *allocVocab) allocationJournaled(c ssa.CallInstruction, depth int) bool {
	if val := c.Value(); val != nil && v.journalsValue(val, depth) {
		return true
	}
	for _, a := range c.Common().Args {
		if mc, ok := a.(*ssa.MakeClosure); ok {
			if g, ok := mc.Fn.(*ssa.Function); ok {
				for _, par := range g.Params {
					if v.journalsValue(par, depth) {
						return true
					}
				}
			}
		}
	}
	return false
}

// addrIsFieldEverywhere: x is the address of a struct field satisfying pred — directly, or x is a parameter
// and at every call site of its function the argument is (transitively) such an address.
func addrIsFieldEverywhere(p *Program, x ssa.Value, pred func(*types.Var) bool, depth int) bool {
	switch a := x.(type) {
	case *ssa.FieldAddr:
		return pred(fieldOfAddr(a))
	case *ssa.Parameter:
		if depth > 3 {
			return false
		}
		pi := paramIndex(a.Parent(), a)
		sites := p.callIndex().sites[a.Parent()]
		if pi < 0 || len(sites) == 0 {
			return false
		}
		for _, site := range sites {
			if pi >= len(site.Common().Args) || !addrIsFieldEverywhere(p, site.Common().Args[pi], pred, depth+1) {
				return false
			}
		}
		return true
	}
	return false
}

// resolveFuncValue follows a function-typed value to the closure / function it denotes: a captured variable
// (FreeVar) is resolved through the MakeClosure that created the enclosing closure, a spilled local through
// its single store.
func resolveFuncValue(v ssa.Value, depth int) ssa.Value {
	if depth > 4 || v == nil {
		return v
	}
	switch x := v.(type) {
	case *ssa.FreeVar:
		fn := x.Parent()
		outer := fn.Parent()
		if outer == nil {
			return v
		}
		idx := -1
		for i, fv := range fn.FreeVars {
			if fv == x {
				idx = i
			}
		}
		for _, b := range outer.Blocks {
			for _, ins := range b.Instrs {
				if mc, ok := ins.(*ssa.MakeClosure); ok && mc.Fn == ssa.Value(fn) && idx >= 0 && idx < len(mc.Bindings) {
					return resolveFuncValue(mc.Bindings[idx], depth+1)
				}
			}
		}
	case *ssa.UnOp:
		if x.Op == token.MUL {
			switch a := x.X.(type) {
			case *ssa.Alloc:
				var val ssa.Value
				n := 0
				if a.Referrers() != nil {
					for _, r := range *a.Referrers() {
						if st, ok := r.(*ssa.Store); ok && st.Addr == ssa.Value(a) {
							val = st.Val
							n++
						}
					}
				}
				if n == 1 {
					return resolveFuncValue(val, depth+1)
				}
			case *ssa.FreeVar:
				// variable captured by reference: *fv
				r := resolveFuncValue(a, depth+1)
				if al, ok := r.(*ssa.Alloc); ok {
					var val ssa.Value
					n := 0
					if al.Referrers() != nil {
						for _, rr := range *al.Referrers() {
							if st, ok := rr.(*ssa.Store); ok && st.Addr == ssa.Value(al) {
								val = st.Val
								n++
							}
						}
					}
					if n == 1 {
						return resolveFuncValue(val, depth+1)
					}
				}
			}
		}
	}
	return v
}
