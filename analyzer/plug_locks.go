package main

// LOCKS / LOCK-ORDER / LOCKSET plug-in of engine A (DESIGN §3 C09, C18, C14, C13, C02).
//
// Lock classes and their real semantics:
//   shared    counter (readers)          reserved  mutex (one writer)
//   pending   boolean (no new readers)   exclusive stateless wait (no active readers)
//   mu        lock.mu                    mux       writer.mux
//   txlock    the sync.Locker a Tx carries (Shared or Reserved, unknown at a Tx root)
//   flock     path lock of the vfs file  (held iff the error returned by Lock() is nil)
//   pqtx      a txfile transaction begun by package pq through its Delegate (held iff Begin's error is nil)

import (
	"fmt"
	"go/types"
	"sort"
	"strings"

	"golang.org/x/tools/go/ssa"
)

type condHeld struct {
	sym   int    // held iff sym is nil
	site  string // where acquired
	txSym int    // symbol of the transaction pointer handed out (pq level)
}

type lockProp struct {
	n     map[string]int
	flock int // 0 not attempted; >0 held iff sym nil; -1 released
	mmap  int // same encoding for the memory mapping of the file
	pqtx  []condHeld
}

func newLockProp() *lockProp { return &lockProp{n: map[string]int{}} }

// resolved states of a conditionally held resource
const (
	resReleased = -1
	resHeld     = -2
	resFailed   = -3
)

// learnNil moves the outcome of Lock()/MMap()/Begin() into the property state as soon as the error's
// nil-ness is decided by a branch.
func (l *locksPlugin) learnNil(st *State, sym int, isNil bool) {
	p, ok := st.prop.(*lockProp)
	if !ok {
		return
	}
	res := resFailed
	if isNil {
		res = resHeld
	}
	if p.flock == sym {
		p.flock = res
	}
	if p.mmap == sym {
		p.mmap = res
	}
}

func (p *lockProp) Key() string {
	ks := []string{}
	for k, v := range p.n {
		if v != 0 {
			ks = append(ks, fmt.Sprintf("%s=%d", k, v))
		}
	}
	sort.Strings(ks)
	s := strings.Join(ks, ",") + fmt.Sprintf(";fl=%d;mm=%d;", p.flock, p.mmap)
	for _, t := range p.pqtx {
		s += fmt.Sprintf("tx%d,", t.sym)
	}
	return s
}

func (p *lockProp) Clone() PropState {
	n := &lockProp{n: make(map[string]int, len(p.n)), flock: p.flock, mmap: p.mmap, pqtx: append([]condHeld(nil), p.pqtx...)}
	for k, v := range p.n {
		n.n[k] = v
	}
	return n
}

func (p *lockProp) held() []string {
	var h []string
	for k, v := range p.n {
		if v > 0 && k != "bgwriter" {
			h = append(h, k)
		}
	}
	sort.Strings(h)
	return h
}

// access recorded for LOCKSET
type fieldAccess struct {
	Field string // Owner.field[.sub]
	Write bool
	Held  []string
	Role  string
	Pos   string
	Fn    string
	Chain string
	ByType bool // attributed by field type (summarised callee), not by object
	fvar   *types.Var
}

type locksVocab struct {
	lockFns   map[*ssa.Function][2]string // fn -> (class, "lock"|"unlock")
	osfsLock  *ssa.Function
	osfsUnlk  *ssa.Function
	osfsMMap, osfsMUnmap   *ssa.Function
	writerInit, writerStop *ssa.Function
	lockMu    *types.Var
	lockRes   *types.Var
	writerMux *types.Var
	txClose   map[*ssa.Function]string // (*txfile.Tx).Close/Commit/Rollback
	named     map[string]*types.Named
	relevant  map[*ssa.Function]bool // functions that can reach a lock event
}

func newLocksVocab(p *Program) *locksVocab {
	v := &locksVocab{lockFns: map[*ssa.Function][2]string{}, txClose: map[*ssa.Function]string{}, named: map[string]*types.Named{}}
	for _, c := range []string{"shared", "reserved", "pending", "exclusive"} {
		v.lockFns[p.Method("txfile", c+"Lock", "Lock")] = [2]string{c, "lock"}
		v.lockFns[p.Method("txfile", c+"Lock", "Unlock")] = [2]string{c, "unlock"}
	}
	v.osfsLock = p.Method("internal/vfs/osfs", "File", "Lock")
	v.osfsUnlk = p.Method("internal/vfs/osfs", "File", "Unlock")
	v.osfsMMap = p.Method("internal/vfs/osfs", "File", "MMap")
	v.osfsMUnmap = p.Method("internal/vfs/osfs", "File", "MUnmap")
	v.writerInit = p.Method("txfile", "writer", "Init")
	v.writerStop = p.Method("txfile", "writer", "Stop")
	v.lockMu = p.FieldVar("txfile", "lock", "mu")
	v.lockRes = p.FieldVar("txfile", "lock", "reserved")
	v.writerMux = p.FieldVar("txfile", "writer", "mux")
	for _, m := range []string{"Close", "Commit", "Rollback"} {
		v.txClose[p.Method("txfile", "Tx", m)] = m
	}
	for _, n := range []string{"File", "Tx", "Page", "lock", "writer", "waLog", "allocator"} {
		v.named[n] = p.Named("txfile", n)
	}
	seeds := map[*ssa.Function]bool{v.osfsLock: true, v.osfsUnlk: true, v.osfsMMap: true, v.osfsMUnmap: true, v.writerInit: true, v.writerStop: true}
	for fn := range v.lockFns {
		seeds[fn] = true
	}
	cg := p.CHA()
	for fn := range cg.Nodes {
		if fn == nil {
			continue
		}
		if isSyncMethod(fn, "Mutex", "Lock") || isSyncMethod(fn, "Mutex", "Unlock") {
			seeds[fn] = true
		}
		if !p.InRepo(fn) {
			continue
		}
		for _, b := range fn.Blocks {
			for _, ins := range b.Instrs {
				c, ok := ins.(ssa.CallInstruction)
				if !ok || !c.Common().IsInvoke() {
					continue
				}
				rt, m := c.Common().Value.Type(), c.Common().Method.Name()
				if isNamed(rt, "sync", "Locker") || isNamed(rt, modPath+"/internal/vfs", "File") && (m == "Lock" || m == "Unlock" || m == "MMap" || m == "MUnmap") ||
					isNamed(rt, modPath+"/pq", "Delegate") && strings.HasPrefix(m, "Begin") {
					seeds[fn] = true
				}
			}
		}
	}
	v.relevant = withFuncRefs(p, cg, reachesAny(cg, seeds))
	return v
}

type locksPlugin struct {
	basePlugin
	voc      *locksVocab
	role     string
	pqLevel  bool // analysing package pq: txfile.Tx methods are API events, not entered
	order    map[string]string // "held->acq" -> first site
	acquired map[string]int    // class -> number of acquisition events seen
	record   bool
	accesses []fieldAccess
	accSeen  map[string]bool
	nilDeref bool // report definite nil dereferences
	events   int
	newTx    *ssa.Function
	onNewTx  func(in *Interp, fs *FState, site ssa.Instruction)
	fileBegins map[*ssa.Function]bool // pq level: txfile.File.Begin* are acquisitions too
	storedTx   map[int]string         // error symbol of a Begin -> "Owner.field" the transaction was stored into
}

func newLocksPlugin(v *locksVocab, role string) *locksPlugin {
	return &locksPlugin{voc: v, role: role, order: map[string]string{}, acquired: map[string]int{}, accSeen: map[string]bool{}}
}

func lp(fs *FState) *lockProp { return fs.st.prop.(*lockProp) }

func (l *locksPlugin) acquire(in *Interp, fs *FState, site ssa.Instruction, class string) {
	p := lp(fs)
	l.events++
	l.acquired[class]++
	for k, v := range p.n {
		if v > 0 && k != class {
			e := k + "->" + class
			if _, ok := l.order[e]; !ok {
				l.order[e] = in.P.InstrPos(site) + " in " + funcName(site.Parent())
			}
		}
	}
	switch class {
	case "pending":
		if p.n["reserved"] == 0 && p.n["txlock"] == 0 {
			in.report("LOCK-PRECOND", site, "Pending.Lock without the Reserved (writer) lock held")
		}
		if p.n[class] > 0 {
			in.report("LOCK-MISUSE", site, "Pending.Lock while Pending is already set (the earlier acquisition is never released on this path)")
		}
		p.n[class]++
	case "exclusive":
		if p.n["pending"] == 0 {
			in.report("LOCK-PRECOND", site, "Exclusive.Lock without Pending held (new readers are not barred while waiting)")
		}
		if p.n[class] > 0 {
			in.report("LOCK-MISUSE", site, "Exclusive.Lock while Exclusive is already held (the earlier acquisition is never released on this path)")
		}
		p.n[class]++
	case "reserved", "mu", "mux":
		if p.n[class] > 0 {
			in.report("LOCK-MISUSE", site, "re-lock of held mutex "+class+" (self-deadlock)")
		}
		p.n[class]++
	default:
		p.n[class]++
	}
	if (class == "reserved" || class == "pending" || class == "exclusive" || class == "shared" || class == "txlock") && (p.n["mu"] > 0 || p.n["mux"] > 0) {
		in.report("LOCK-ORDER", site, "blocking acquisition of "+class+" while an internal mutex (lock.mu / writer.mux) is held")
	}
}

func (l *locksPlugin) release(in *Interp, fs *FState, site ssa.Instruction, class string) {
	p := lp(fs)
	l.events++
	if p.n[class] == 0 {
		if class == "exclusive" {
			return // Exclusive.Unlock is a no-op in the implementation
		}
		in.report("LOCK-MISUSE", site, "unlock of idle "+class)
		return
	}
	p.n[class]--
}

// cellOwner returns the named struct type that directly contains the cell and the field name.
func cellOwner(c *Cell) (types.Type, string) {
	if c.parent == nil {
		return nil, ""
	}
	return c.parent.typ, c.key
}

func (l *locksPlugin) mutexClass(v Value) string {
	if p, ok := v.(PtrV); ok {
		ot, f := cellOwner(p.cell)
		if ot != nil {
			if n, ok := ot.(*types.Named); ok {
				switch {
				case n.Obj() == l.voc.named["lock"].Obj() && f == l.voc.lockMu.Name():
					return "mu"
				case n.Obj() == l.voc.named["lock"].Obj() && f == l.voc.lockRes.Name():
					return "reserved"
				case n.Obj() == l.voc.named["writer"].Obj() && f == l.voc.writerMux.Name():
					return "mux"
				}
			}
		}
		return "mutex:" + p.cell.name
	}
	return "mutex:?"
}

func isSyncMethod(callee *ssa.Function, typ, name string) bool {
	if callee == nil || callee.Name() != name {
		return false
	}
	sig := callee.Signature
	if sig.Recv() == nil {
		return false
	}
	t := sig.Recv().Type()
	if p, ok := t.(*types.Pointer); ok {
		t = p.Elem()
	}
	n, ok := t.(*types.Named)
	return ok && n.Obj().Pkg() != nil && n.Obj().Pkg().Path() == "sync" && n.Obj().Name() == typ
}

func namedOf(t types.Type) *types.Named {
	if p, ok := t.(*types.Pointer); ok {
		t = p.Elem()
	}
	n, _ := t.(*types.Named)
	return n
}

func isNamed(t types.Type, pkgPath, name string) bool {
	n := namedOf(t)
	return n != nil && n.Obj().Pkg() != nil && n.Obj().Pkg().Path() == pkgPath && n.Obj().Name() == name
}

func (l *locksPlugin) OnCall(in *Interp, fs *FState, site ssa.Instruction, callee *ssa.Function, fnv Value, args []Value) (bool, Value) {
	if callee != nil {
		if callee == l.newTx && l.onNewTx != nil {
			l.onNewTx(in, fs, site)
		}
		if ev, ok := l.voc.lockFns[callee]; ok {
			if ev[1] == "lock" {
				l.acquire(in, fs, site, ev[0])
			} else {
				l.release(in, fs, site, ev[0])
			}
			return true, Top{}
		}
		switch {
		case isSyncMethod(callee, "Mutex", "Lock"):
			l.acquire(in, fs, site, l.mutexClass(args[0]))
			return true, Top{}
		case isSyncMethod(callee, "Mutex", "Unlock"):
			l.release(in, fs, site, l.mutexClass(args[0]))
			return true, Top{}
		case callee == l.voc.osfsLock:
			return true, l.flockAcquire(in, fs)
		case callee == l.voc.osfsUnlk:
			l.flockRelease(in, fs, site)
			return true, in.top()
		case callee == l.voc.osfsMMap:
			return true, l.mmapAcquire(in, fs)
		case callee == l.voc.osfsMUnmap:
			lp(fs).mmap = -1
			return true, in.top()
		case callee == l.voc.writerInit:
			lp(fs).n["bgwriter"]++
			return false, nil
		case callee == l.voc.writerStop:
			if lp(fs).n["bgwriter"] > 0 {
				lp(fs).n["bgwriter"]--
			}
			return false, nil
		}
		if l.pqLevel && l.fileBegins[callee] {
			return true, l.pqBegin(in, fs, site, callee.Name(), callee.Signature.Results().At(0).Type())
		}
		if l.pqLevel {
			if m, ok := l.voc.txClose[callee]; ok {
				return true, l.pqTxFinish(in, fs, site, m)
			}
			// any other txfile API call from pq is opaque at this level
			if fnPkgPath(callee) == modPath {
				return true, in.unknown(callee.Signature.Results())
			}
		}
		return false, nil
	}
	// unresolved dynamic call: classify by interface type + method
	c, ok := site.(ssa.CallInstruction)
	if !ok || !c.Common().IsInvoke() {
		return false, nil
	}
	m := c.Common().Method
	recvT := c.Common().Value.Type()
	switch {
	case isNamed(recvT, "sync", "Locker") && m.Name() == "Lock":
		l.acquire(in, fs, site, "txlock")
		return true, Top{}
	case isNamed(recvT, "sync", "Locker") && m.Name() == "Unlock":
		l.release(in, fs, site, "txlock")
		return true, Top{}
	case isNamed(recvT, modPath+"/internal/vfs", "File") && m.Name() == "Unlock":
		l.flockRelease(in, fs, site)
		return true, in.top()
	case isNamed(recvT, modPath+"/internal/vfs", "File") && m.Name() == "Lock":
		return true, l.flockAcquire(in, fs)
	case isNamed(recvT, modPath+"/internal/vfs", "File") && m.Name() == "MMap":
		return true, l.mmapAcquire(in, fs)
	case isNamed(recvT, modPath+"/internal/vfs", "File") && m.Name() == "MUnmap":
		lp(fs).mmap = -1
		return true, in.top()
	case isNamed(recvT, modPath+"/pq", "Delegate") && strings.HasPrefix(m.Name(), "Begin"):
		return true, l.pqBegin(in, fs, site, m.Name(), c.Common().Signature().Results().At(0).Type())
	}
	return false, nil
}

func (l *locksPlugin) pqBegin(in *Interp, fs *FState, site ssa.Instruction, name string, txType types.Type) Value {
	errSym := in.symAt(in.instrTag())
	l.events++
	l.acquired["pqtx"]++
	p := lp(fs)
	nested := p.n["pqtx-owned"] > 0
	for _, t := range p.pqtx {
		if fs.st.nilF[t.sym] != 2 {
			nested = true
		}
	}
	if nested {
		in.report("NESTED-TX", site, "a transaction is begun ("+name+") while this queue role already holds an open transaction: a read transaction nested in an open one blocks behind a pending commit that in turn waits for the outer transaction — producer and consumer deadlock")
	}
	txv := in.unknown(txType)
	txSym := 0
	if pv, ok := txv.(PtrV); ok {
		txSym = pv.sym
		// the transaction is non-nil exactly when the error is nil; keep it simple: non-nil
		fs.st.nilF[pv.sym] = 2
	}
	p.pqtx = append(p.pqtx, condHeld{sym: errSym, site: in.P.InstrPos(site) + " " + name + " in " + funcName(site.Parent()), txSym: txSym})
	return TupleV{[]Value{txv, Top{errSym}}}
}

func (l *locksPlugin) mmapAcquire(in *Interp, fs *FState) Value {
	errSym := in.symAt(in.instrTag())
	lp(fs).mmap = errSym
	return TupleV{[]Value{in.nonNil(), Top{errSym}}}
}

// flockRelease: the path lock is dropped.  In File.Close (the File is published: transactions of other
// goroutines may be running) the release must happen in the quiescent section — Reserved, Pending and
// Exclusive held, i.e. after the wait for active readers — otherwise a second Open of the path succeeds
// while this File is still mapped and in use.
func (l *locksPlugin) flockRelease(in *Interp, fs *FState, site ssa.Instruction) {
	p := lp(fs)
	if l.role == "close" && p.flock != resReleased {
		var missing []string
		for _, c := range []string{"reserved", "pending", "exclusive"} {
			if p.n[c] == 0 {
				missing = append(missing, c)
			}
		}
		if len(missing) > 0 {
			in.report("FLOCK-QUIESCENT", site, "path lock released in File.Close without "+strings.Join(missing, "/")+" held: transactions of this File can still be active (Close has not yet waited for them) while another Open of the same path already succeeds")
		}
	}
	p.flock = -1
	l.events++
}

func (l *locksPlugin) flockAcquire(in *Interp, fs *FState) Value {
	r := in.top()
	p := lp(fs)
	l.events++
	l.acquired["flock"]++
	if p.flock == resHeld || (p.flock > 0 && fs.st.nilF[p.flock] != 2) {
		// second Lock while possibly held: osfs reports errAlreadyLocked; state unchanged
		return r
	}
	p.flock = r.(Top).sym
	return r
}

// pqTxFinish: Close / Commit / Rollback of the most recently begun pq transaction.
func (l *locksPlugin) pqTxFinish(in *Interp, fs *FState, site ssa.Instruction, method string) Value {
	p := lp(fs)
	l.events++
	if n := len(p.pqtx); n > 0 {
		p.pqtx = p.pqtx[:n-1]
	} else if p.n["pqtx-owned"] > 0 {
		p.n["pqtx-owned"]--
	}
	// Close on an already finished tx is a documented no-op; not a misuse.
	return in.top()
}

func (l *locksPlugin) OnNilDeref(in *Interp, fs *FState, instr ssa.Instruction) {
	if l.nilDeref {
		in.report("NILDEREF", instr, "definite nil dereference of state cleared earlier on this path")
	}
}

// sharedOwners: objects whose fields are shared between goroutines of one File.
var sharedOwners = map[string]bool{"File": true, "lock": true, "writer": true, "waLog": true, "allocator": true, "allocArea": true, "freelist": true}

func (l *locksPlugin) recordAccess(in *Interp, fs *FState, instr ssa.Instruction, c *Cell, write bool) {
	if !l.record || c.parent == nil || !c.lazy {
		return
	}
	root := c.root()
	rn, ok := root.typ.(*types.Named)
	if !ok || !sharedOwners[rn.Obj().Name()] || rn.Obj().Pkg().Path() != modPath {
		return
	}
	field := rn.Obj().Name() + "." + c.path()
	held := lp(fs).held()
	k := fmt.Sprintf("%s|%v|%s|%s", field, write, strings.Join(held, ","), funcName(instr.Parent()))
	if l.accSeen[k] {
		return
	}
	l.accSeen[k] = true
	l.accesses = append(l.accesses, fieldAccess{Field: field, Write: write, Held: held, Role: l.role,
		Pos: in.P.InstrPos(instr), Fn: funcName(instr.Parent()), Chain: strings.Join(in.chain(), ">"), fvar: c.fvar})
}

// onSkip: a callee without lock events was summarised; attribute its field accesses to the call site.
func (l *locksPlugin) onSkip(in *Interp, fs *FState, site ssa.Instruction, callee *ssa.Function) {
	if !l.record {
		return
	}
	eff := in.P.Effects().Of(callee)
	if eff == nil {
		return
	}
	held := lp(fs).held()
	rec := func(f *types.Var, write bool) {
		owner := fieldOwner(in.P, f)
		if owner == "" || !sharedOwners[owner] {
			return
		}
		field := owner + "." + f.Name()
		k := fmt.Sprintf("%s|%v|%s|%s", field, write, strings.Join(held, ","), funcName(callee))
		if l.accSeen[k] {
			return
		}
		l.accSeen[k] = true
		l.accesses = append(l.accesses, fieldAccess{Field: field, Write: write, Held: held, Role: l.role,
			Pos: in.P.InstrPos(site), Fn: funcName(site.Parent()) + " → " + funcName(callee) + " (summarised)", Chain: strings.Join(in.chain(), ">"), ByType: true, fvar: f})
	}
	for f := range eff.mods {
		rec(f, true)
	}
	for f := range eff.refs {
		rec(f, false)
	}
}

func (l *locksPlugin) OnStore(in *Interp, fs *FState, instr ssa.Instruction, c *Cell, v Value) {
	l.recordAccess(in, fs, instr, c, true)
	// `*f = File{}` (end of File.Close) replaces the embedded lock object by a fresh, idle one
	if _, isZero := v.(zeroStruct); isZero && c.parent == nil {
		if n, ok := c.typ.(*types.Named); ok && n.Obj() == l.voc.named["File"].Obj() {
			p := lp(fs)
			for _, k := range []string{"reserved", "pending", "exclusive", "shared", "mu"} {
				delete(p.n, k)
			}
		}
	}
	if l.pqLevel && c.fvar != nil && c.lazy {
		if pv, ok := v.(PtrV); ok && pv.sym != 0 {
			for _, t := range lp(fs).pqtx {
				if t.txSym == pv.sym {
					if l.storedTx == nil {
						l.storedTx = map[int]string{}
					}
					owner := ""
					if n, ok := c.parent.typ.(*types.Named); ok {
						owner = n.Obj().Name()
					}
					l.storedTx[t.sym] = owner + "." + c.fvar.Name()
				}
			}
		}
	}
}

func (l *locksPlugin) OnLoad(in *Interp, fs *FState, instr ssa.Instruction, c *Cell) {
	l.recordAccess(in, fs, instr, c, false)
}
