package main

// Engine A: abstract values and cells of the abstract interpreter (DESIGN.md §2.1).

import (
	"fmt"
	"go/constant"
	"go/types"
	"strings"

	"golang.org/x/tools/go/ssa"
)

type Value interface{ vstr() string }

type Top struct{ sym int }             // unknown; identity = sym (0 = anonymous)
type ConstV struct{ c constant.Value } // int/bool/string constant
type NilV struct{ explicit bool }      // explicit: stored / constant nil; else zero value of a never-assigned location
type NonNilV struct{ sym int }         // non-nil pointer/interface/slice of unknown target
// PtrV points to an abstract cell.  sym != 0: the pointer came out of the unknown part of the heap
// (field of a singleton, container element) and may be nil — its nil-ness is the fact on sym.
// weak: the cell stands for several concrete objects (container element): stores are weak updates.
type PtrV struct {
	cell *Cell
	sym  int
	weak bool
}
type ClosureV struct {
	fn    *ssa.Function
	binds []Value
}
type IfaceV struct { // interface with known dynamic type
	typ types.Type
	val Value
}
type StructV struct {
	fields []Value
	src    int // id of the cell the struct value was loaded from (0: built otherwise)
}
type TupleV struct{ elems []Value }

func (v Top) vstr() string {
	if v.sym == 0 {
		return "T"
	}
	return fmt.Sprintf("T%d", v.sym)
}
func (v ConstV) vstr() string  { return v.c.String() }
func (NilV) vstr() string      { return "nil" }
func (v NonNilV) vstr() string { return fmt.Sprintf("nn%d", v.sym) }
func (v PtrV) vstr() string {
	s := "&" + v.cell.name
	if v.sym != 0 {
		s += fmt.Sprintf("?%d", v.sym)
	}
	return s
}
func (v ClosureV) vstr() string { return "clo(" + v.fn.String() + ")" }
func (v IfaceV) vstr() string   { return "iface(" + v.typ.String() + "," + v.val.vstr() + ")" }
func (v StructV) vstr() string {
	s := []string{}
	for _, f := range v.fields {
		if f == nil {
			s = append(s, "_")
		} else {
			s = append(s, f.vstr())
		}
	}
	return "{" + strings.Join(s, ",") + "}"
}
func (v TupleV) vstr() string {
	s := []string{}
	for _, f := range v.elems {
		s = append(s, f.vstr())
	}
	return "(" + strings.Join(s, ",") + ")"
}

// Cell: abstract memory location. Children are created lazily (fields / const indices).
type Cell struct {
	id     int
	name   string
	typ    types.Type // type of contents
	parent *Cell
	key    string // field name or index within parent
	kids   map[string]*Cell
	kidOrd []*Cell
	lazy   bool // singleton object whose unknown fields are "stable unknown"
	local  bool // Alloc of a frame
	fvar   *types.Var
}

func (c *Cell) path() string {
	if c.parent == nil {
		return ""
	}
	p := c.parent.path()
	if p == "" {
		return c.key
	}
	return p + "." + c.key
}

func (c *Cell) root() *Cell {
	for c.parent != nil {
		c = c.parent
	}
	return c
}

func isNilable(t types.Type) bool {
	switch t.Underlying().(type) {
	case *types.Pointer, *types.Interface, *types.Map, *types.Slice, *types.Chan, *types.Signature:
		return true
	}
	if b, ok := t.Underlying().(*types.Basic); ok && b.Kind() == types.UnsafePointer {
		return true
	}
	return false
}

func valueKey(v Value) string {
	if v == nil {
		return "_"
	}
	switch x := v.(type) {
	case ConstV:
		return "c:" + x.c.ExactString()
	case PtrV:
		return fmt.Sprintf("p:%d/%d", x.cell.id, x.sym)
	case ClosureV:
		s := "f:" + x.fn.String()
		for _, b := range x.binds {
			s += "," + valueKey(b)
		}
		return s
	case IfaceV:
		return "i:" + x.typ.String() + ":" + valueKey(x.val)
	case StructV:
		s := fmt.Sprintf("s%d{", x.src)
		for _, f := range x.fields {
			s += valueKey(f) + ","
		}
		return s + "}"
	case TupleV:
		s := "t("
		for _, f := range x.elems {
			s += valueKey(f) + ","
		}
		return s + ")"
	}
	return v.vstr()
}

func knownNil(v Value) bool { _, ok := v.(NilV); return ok }

func collectSyms(v Value, out map[int]bool) {
	switch x := v.(type) {
	case Top:
		if x.sym != 0 {
			out[x.sym] = true
		}
	case NonNilV:
		if x.sym != 0 {
			out[x.sym] = true
		}
	case PtrV:
		if x.sym != 0 {
			out[x.sym] = true
		}
	case ClosureV:
		for _, b := range x.binds {
			collectSyms(b, out)
		}
	case IfaceV:
		collectSyms(x.val, out)
	case StructV:
		for _, b := range x.fields {
			if b != nil {
				collectSyms(b, out)
			}
		}
	case TupleV:
		for _, b := range x.elems {
			collectSyms(b, out)
		}
	}
}

func constBool(b bool) Value  { return ConstV{constant.MakeBool(b)} }
func constInt(n int64) Value  { return ConstV{constant.MakeInt64(n)} }
func asConstInt(v Value) (int64, bool) {
	if c, ok := v.(ConstV); ok && c.c.Kind() == constant.Int {
		n, exact := constant.Int64Val(c.c)
		return n, exact
	}
	return 0, false
}
func asConstBool(v Value) (bool, bool) {
	if c, ok := v.(ConstV); ok && c.c.Kind() == constant.Bool {
		return constant.BoolVal(c.c), true
	}
	return false, false
}

func zeroValue(t types.Type) Value {
	switch u := t.Underlying().(type) {
	case *types.Basic:
		switch {
		case u.Info()&types.IsBoolean != 0:
			return constBool(false)
		case u.Info()&types.IsInteger != 0:
			return constInt(0)
		case u.Info()&types.IsString != 0:
			return ConstV{constant.MakeString("")}
		case u.Kind() == types.UnsafePointer:
			return NilV{false}
		}
		return Top{}
	case *types.Pointer, *types.Interface, *types.Map, *types.Slice, *types.Chan, *types.Signature:
		return NilV{false}
	}
	return Top{}
}

func errorLike(t types.Type) bool {
	if t == nil {
		return false
	}
	if types.IsInterface(t) {
		ms := types.NewMethodSet(t)
		for i := 0; i < ms.Len(); i++ {
			if ms.At(i).Obj().Name() == "Error" {
				return true
			}
		}
		return false
	}
	if p, ok := t.(*types.Pointer); ok {
		if n, ok := p.Elem().(*types.Named); ok && n.Obj().Name() == "Error" {
			return true
		}
	}
	return false
}
