package main

// Engine F — sibling agreement (DESIGN §2.6, C10): PERSIST-AGREE, RELOAD-AGREE.

import (
	"fmt"
	"go/types"
	"sort"
	"strings"

	"golang.org/x/tools/go/ssa"
)

// accessorCalls: in the given functions, the fields of struct `owner` on which a method named `method`
// (Get / Set) is called (receiver = &x.field with x of type *owner), incl. nested structs (pos.offset).
func accessorCalls(fns map[*ssa.Function]bool, owners map[*types.TypeName]bool, method string) map[string]string {
	out := map[string]string{}
	for fn := range fns {
		for _, b := range fn.Blocks {
			for _, ins := range b.Instrs {
				c, ok := ins.(ssa.CallInstruction)
				if !ok || c.Common().IsInvoke() || len(c.Common().Args) == 0 {
					continue
				}
				sc := c.Common().StaticCallee()
				if sc == nil || sc.Name() != method {
					continue
				}
				recv := c.Common().Args[0]
				if ct, ok := recv.(*ssa.ChangeType); ok {
					recv = ct.X
				}
				// field path
				var parts []string
				x := recv
				var top *types.TypeName
				for {
					fa, ok := x.(*ssa.FieldAddr)
					if !ok {
						break
					}
					parts = append([]string{fieldOfAddr(fa).Name()}, parts...)
					if n := namedOf(fa.X.Type()); n != nil {
						top = n.Obj()
					}
					x = fa.X
				}
				if top == nil || !owners[top] || len(parts) == 0 {
					continue
				}
				key := top.Name() + "." + strings.Join(parts, ".")
				if _, dup := out[key]; !dup {
					out[key] = funcName(fn)
				}
			}
		}
	}
	return out
}

func unionReach(p *Program, roots ...*ssa.Function) map[*ssa.Function]bool {
	return reachableFrom(p.CHA(), roots...)
}

func withoutFns(m map[*ssa.Function]bool, drop ...*ssa.Function) map[*ssa.Function]bool {
	out := map[*ssa.Function]bool{}
	for f := range m {
		skip := false
		for _, d := range drop {
			if f == d {
				skip = true
			}
		}
		if !skip && len(f.Blocks) > 0 {
			out[f] = true
		}
	}
	return out
}

func rulePERSISTAGREE(p *Program, rep *Report) {
	rep.Rule("PERSIST-AGREE", 12, "every persisted header field written on a commit / flush / ACK path is read back on the open / reader / ACK path (file header: metaPage; queue: queuePage, eventPage); a field that is written but never read back is silently lost on reopen")
	// ---- txfile metaPage ----
	metaOwners := map[*types.TypeName]bool{p.Named("txfile", "metaPage").Obj(): true}
	trace := p.Func("txfile", "traceMetaPage")
	metaInit := p.Method("txfile", "metaPage", "Init")
	initNew := p.Func("txfile", "initNewFile")
	writers := withoutFns(unionReach(p, p.Method("txfile", "Tx", "Commit"), p.Func("txfile", "growFile"), p.Func("txfile", "shrinkFile")), trace, metaInit, initNew)
	readers := withoutFns(unionReach(p, p.Func("txfile", "openWith"), p.Func("txfile", "newTx")), trace)
	sets := accessorCalls(writers, metaOwners, "Set")
	gets := accessorCalls(readers, metaOwners, "Get")
	agree(p, rep, "PERSIST-AGREE", "file header", sets, gets)
	// ---- pq queuePage / eventPage ----
	pqOwners := map[*types.TypeName]bool{p.Named("pq", "queuePage").Obj(): true, p.Named("pq", "eventPage").Obj(): true}
	tq, tp := p.Func("pq", "traceQueueHeader"), p.Func("pq", "tracePageHeader")
	var wroots, rroots []*ssa.Function
	for _, fn := range methodsOf(p, "pq", "Writer", false) {
		wroots = append(wroots, fn)
	}
	wroots = append(wroots, p.Method("pq", "acker", "cleanup"), p.Func("pq", "MakeRoot"))
	for _, fn := range methodsOf(p, "pq", "Reader", false) {
		rroots = append(rroots, fn)
	}
	for _, fn := range methodsOf(p, "pq", "acker", false) {
		rroots = append(rroots, fn)
	}
	for _, fn := range methodsOf(p, "pq", "Queue", true) {
		rroots = append(rroots, fn)
	}
	rroots = append(rroots, p.Func("pq", "newWriter"), p.Func("pq", "New"))
	pw := withoutFns(unionReach(p, wroots...), tq, tp)
	pr := withoutFns(unionReach(p, rroots...), tq, tp)
	agree(p, rep, "PERSIST-AGREE", "queue", accessorCalls(pw, pqOwners, "Set"), accessorCalls(pr, pqOwners, "Get"))
}

func agree(p *Program, rep *Report, rule, what string, sets, gets map[string]string) {
	keys := make([]string, 0, len(sets))
	for k := range sets {
		keys = append(keys, k)
	}
	sort.Strings(keys)
	for _, k := range keys {
		// a read of a parent struct path covers nested fields only if exact; compare exact paths
		if by, ok := gets[k]; ok {
			rep.OK(rule, what+"|"+k, "", "written in "+sets[k]+", read back in "+by)
		} else {
			rep.Bad(rule, what+"|"+k, "", fmt.Sprintf("%s field %s is written on the commit path (in %s) but never read back on the open/read path: its value is lost on reopen", what, k, sets[k]))
		}
	}
}

// ruleRELOADAGREE: every in-memory field the commit-time switch assigns is also assigned by the open-time loaders.
func ruleRELOADAGREE(p *Program, rep *Report) {
	rep.Rule("RELOAD-AGREE", 6, "every in-memory field assigned by the commit-time switch (allocator.Commit, allocArea.commit, waLog.Commit) is also assigned by the open-time loaders (readAllocatorState, readWALMapping): otherwise the state after reopen differs from the state of an instance that was never closed")
	commitFns := staticReach(p, p.Method("txfile", "allocator", "Commit"), p.Method("txfile", "waLog", "Commit"))
	loadFns := staticReach(p, p.Func("txfile", "readAllocatorState"), p.Func("txfile", "readWALMapping"))
	mods := func(fns map[*ssa.Function]bool) map[*types.Var]string {
		out := map[*types.Var]string{}
		for fn := range fns {
			for _, b := range fn.Blocks {
				for _, ins := range b.Instrs {
					st, ok := ins.(*ssa.Store)
					if !ok {
						continue
					}
					if f := addrField(st.Addr); f != nil {
						if _, dup := out[f]; !dup {
							out[f] = funcName(fn)
						}
					}
				}
			}
		}
		return out
	}
	cm, lm := mods(commitFns), mods(loadFns)
	covered := func(f *types.Var) (string, bool) {
		if by, ok := lm[f]; ok {
			return by, true
		}
		// whole-struct store to a field whose struct type declares f
		for g, by := range lm {
			if st, ok := g.Type().Underlying().(*types.Struct); ok {
				for i := 0; i < st.NumFields(); i++ {
					if st.Field(i) == f {
						return by + " (whole " + g.Name() + ")", true
					}
				}
			}
		}
		return "", false
	}
	var fs []*types.Var
	for f := range cm {
		owner := fieldOwner(p, f)
		if owner == "allocator" || owner == "allocArea" || owner == "freelist" || owner == "waLog" {
			fs = append(fs, f)
		}
	}
	sort.Slice(fs, func(i, j int) bool { return fieldOwner(p, fs[i])+fs[i].Name() < fieldOwner(p, fs[j])+fs[j].Name() })
	for _, f := range fs {
		key := fieldOwner(p, f) + "." + f.Name()
		if by, ok := covered(f); ok {
			rep.OK("RELOAD-AGREE", key, "", "assigned by "+cm[f]+" at commit and by "+by+" at open")
		} else {
			rep.Bad("RELOAD-AGREE", key, "", "in-memory field "+key+" is assigned by the commit-time switch ("+cm[f]+") but by no open-time loader: after a reopen it keeps its zero value (e.g. the pages holding the old free list are never freed again)")
		}
	}
}
