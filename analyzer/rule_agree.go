package main

// Engine F — sibling agreement (DESIGN §2.6, C10): PERSIST-AGREE, RELOAD-AGREE.

import (
	"os"
	"fmt"
	"go/types"
	"sort"
	"strings"

	"golang.org/x/tools/go/ssa"
)

// accessorCalls: in the given functions, the fields of struct `owner` on which a method named `method`
// (Get / Set) is called (receiver = &x.field with x of type *owner), incl. nested structs (pos.offset).
func accessorCalls(fns map[*ssa.Function]bool, owners map[*types.TypeName]bool, method string) map[string]string {
	out := map[string]string{}
	for fn := range fns {
		for _, b := range fn.Blocks {
			for _, ins := range b.Instrs {
				c, ok := ins.(ssa.CallInstruction)
				if !ok || c.Common().IsInvoke() || len(c.Common().Args) == 0 {
					continue
				}
				sc := c.Common().StaticCallee()
				if sc == nil || sc.Name() != method {
					continue
				}
				recv := c.Common().Args[0]
				if ct, ok := recv.(*ssa.ChangeType); ok {
					recv = ct.X
				}
				// field path
				var parts []string
				x := recv
				var top *types.TypeName
				for {
					fa, ok := x.(*ssa.FieldAddr)
					if !ok {
						break
					}
					parts = append([]string{fieldOfAddr(fa).Name()}, parts...)
					if n := namedOf(fa.X.Type()); n != nil {
						top = n.Obj()
					}
					x = fa.X
				}
				if top == nil || !owners[top] || len(parts) == 0 {
					continue
				}
				key := top.Name() + "." + strings.Join(parts, ".")
				if _, dup := out[key]; !dup {
					out[key] = funcName(fn)
				}
			}
		}
	}
	return out
}

func unionReach(p *Program, roots ...*ssa.Function) map[*ssa.Function]bool {
	return reachableFrom(p.CHA(), roots...)
}

func withoutFns(m map[*ssa.Function]bool, drop ...*ssa.Function) map[*ssa.Function]bool {
	out := map[*ssa.Function]bool{}
	for f := range m {
		skip := false
		for _, d := range drop {
			if f == d {
				skip = true
			}
		}
		if !skip && len(f.Blocks) > 0 {
			out[f] = true
		}
	}
	return out
}

func rulePERSISTAGREE(p *Program, rep *Report) {
	rep.Rule("PERSIST-AGREE", 12, "every persisted header field written on a commit / flush / ACK path is read back on the open / reader / ACK path (file header: metaPage; queue: queuePage, eventPage); a field that is written but never read back is silently lost on reopen")
	// ---- txfile metaPage ----
	metaOwners := map[*types.TypeName]bool{p.Named("txfile", "metaPage").Obj(): true}
	trace := p.Func("txfile", "traceMetaPage")
	metaInit := p.Method("txfile", "metaPage", "Init")
	initNew := p.Func("txfile", "initNewFile")
	writers := withoutFns(unionReach(p, p.Method("txfile", "Tx", "Commit"), p.Func("txfile", "growFile"), p.Func("txfile", "shrinkFile")), trace, metaInit, initNew)
	readers := withoutFns(unionReach(p, p.Func("txfile", "openWith"), p.Func("txfile", "newTx")), trace)
	sets := accessorCalls(writers, metaOwners, "Set")
	gets := accessorCalls(readers, metaOwners, "Get")
	agree(p, rep, "PERSIST-AGREE", "file header", sets, gets)
	// ---- pq queuePage / eventPage ----
	pqOwners := map[*types.TypeName]bool{p.Named("pq", "queuePage").Obj(): true, p.Named("pq", "eventPage").Obj(): true}
	tq, tp := p.Func("pq", "traceQueueHeader"), p.Func("pq", "tracePageHeader")
	var wroots, rroots []*ssa.Function
	for _, fn := range methodsOf(p, "pq", "Writer", false) {
		wroots = append(wroots, fn)
	}
	wroots = append(wroots, p.Method("pq", "acker", "cleanup"), p.Func("pq", "MakeRoot"))
	for _, fn := range methodsOf(p, "pq", "Reader", false) {
		rroots = append(rroots, fn)
	}
	for _, fn := range methodsOf(p, "pq", "acker", false) {
		rroots = append(rroots, fn)
	}
	for _, fn := range methodsOf(p, "pq", "Queue", true) {
		rroots = append(rroots, fn)
	}
	rroots = append(rroots, p.Func("pq", "newWriter"), p.Func("pq", "New"))
	pw := withoutFns(unionReach(p, wroots...), tq, tp)
	pr := withoutFns(unionReach(p, rroots...), tq, tp)
	agree(p, rep, "PERSIST-AGREE", "queue", accessorCalls(pw, pqOwners, "Set"), accessorCalls(pr, pqOwners, "Get"))
}

func agree(p *Program, rep *Report, rule, what string, sets, gets map[string]string) {
	keys := make([]string, 0, len(sets))
	for k := range sets {
		keys = append(keys, k)
	}
	sort.Strings(keys)
	for _, k := range keys {
		// a read of a parent struct path covers nested fields only if exact; compare exact paths
		if by, ok := gets[k]; ok {
			rep.OK(rule, what+"|"+k, "", "written in "+sets[k]+", read back in "+by)
		} else {
			rep.Bad(rule, what+"|"+k, "", fmt.Sprintf("%s field %s is written on the commit path (in %s) but never read back on the open/read path: its value is lost on reopen", what, k, sets[k]))
		}
	}
}

// ruleRELOADAGREE: every in-memory field the commit-time switch assigns is also assigned by the open-time loaders.
func ruleRELOADAGREE(p *Program, rep *Report) {
	rep.Rule("RELOAD-AGREE", 6, "every in-memory field assigned by the commit-time switch (allocator.Commit, allocArea.commit, waLog.Commit) is also assigned by the open-time loaders (readAllocatorState, readWALMapping): otherwise the state after reopen differs from the state of an instance that was never closed")
	commitFns := staticReach(p, p.Method("txfile", "allocator", "Commit"), p.Method("txfile", "waLog", "Commit"))
	loadFns := staticReach(p, p.Func("txfile", "readAllocatorState"), p.Func("txfile", "readWALMapping"))
	mods := func(fns map[*ssa.Function]bool) map[*types.Var]string {
		out := map[*types.Var]string{}
		for fn := range fns {
			for _, b := range fn.Blocks {
				for _, ins := range b.Instrs {
					st, ok := ins.(*ssa.Store)
					if !ok {
						continue
					}
					if f := addrField(st.Addr); f != nil {
						if _, dup := out[f]; !dup {
							out[f] = funcName(fn)
						}
					}
				}
			}
		}
		return out
	}
	cm, lm := mods(commitFns), mods(loadFns)
	covered := func(f *types.Var) (string, bool) {
		if by, ok := lm[f]; ok {
			return by, true
		}
		// whole-struct store to a field whose struct type declares f
		for g, by := range lm {
			if st, ok := g.Type().Underlying().(*types.Struct); ok {
				for i := 0; i < st.NumFields(); i++ {
					if st.Field(i) == f {
						return by + " (whole " + g.Name() + ")", true
					}
				}
			}
		}
		return "", false
	}
	var fs []*types.Var
	for f := range cm {
		owner := fieldOwner(p, f)
		if owner == "allocator" || owner == "allocArea" || owner == "freelist" || owner == "waLog" {
			fs = append(fs, f)
		}
	}
	sort.Slice(fs, func(i, j int) bool { return fieldOwner(p, fs[i])+fs[i].Name() < fieldOwner(p, fs[j])+fs[j].Name() })
	for _, f := range fs {
		key := fieldOwner(p, f) + "." + f.Name()
		if by, ok := covered(f); ok {
			rep.OK("RELOAD-AGREE", key, "", "assigned by "+cm[f]+" at commit and by "+by+" at open")
		} else {
			rep.Bad("RELOAD-AGREE", key, "", "in-memory field "+key+" is assigned by the commit-time switch ("+cm[f]+") but by no open-time loader: after a reopen it keeps its zero value (e.g. the pages holding the old free list are never freed again)")
		}
	}
}

// ---- MMAP-COVERS-FILE (C10): the size handed to MMap depends on the real file size on every path ----

type depCtx struct {
	p    *Program
	memo map[string]bool
}

// dependsAll: on every path, v is computed from a value satisfying base.
func (d *depCtx) dependsAll(fn *ssa.Function, v ssa.Value, base func(ssa.Value) bool, seen map[ssa.Value]bool) bool {
	if v == nil || seen[v] {
		return false
	}
	seen[v] = true
	defer delete(seen, v)
	if base(v) {
		return true
	}
	switch x := v.(type) {
	case *ssa.Convert:
		return d.dependsAll(fn, x.X, base, seen)
	case *ssa.ChangeType:
		return d.dependsAll(fn, x.X, base, seen)
	case *ssa.UnOp:
		if x.Op.String() == "*" {
			// load of a spilled local: depends if every store to the cell does
			if a, ok := x.X.(*ssa.Alloc); ok && a.Referrers() != nil {
				n, all := 0, true
				for _, r := range *a.Referrers() {
					if st, ok := r.(*ssa.Store); ok && st.Addr == ssa.Value(a) {
						n++
						all = all && d.dependsAll(fn, st.Val, base, seen)
					}
				}
				return n > 0 && all
			}
			return false
		}
		return d.dependsAll(fn, x.X, base, seen)
	case *ssa.BinOp:
		return d.dependsAll(fn, x.X, base, seen) || d.dependsAll(fn, x.Y, base, seen)
	case *ssa.Phi:
		for i, e := range x.Edges {
			if d.dependsAll(fn, e, base, seen) {
				continue
			}
			// control dependence: the edge is taken under a comparison of e with a base-dependent value
			// (e.g. `if fileSize > maxSize { maxSize = fileSize }`: the fall-through edge knows fileSize <= maxSize)
			ok := edgeFacts(x.Block().Preds[i], x.Block(), 0, map[ssa.Value]bool{}).every(func(cj conj) bool {
				return cj.has(func(a atom) bool {
					_, l, r, isCmp := cmpAtom(a)
					if !isCmp {
						return false
					}
					return (sameSSAValue(l, e) && d.dependsAll(fn, r, base, seen)) || (sameSSAValue(r, e) && d.dependsAll(fn, l, base, seen))
				})
			})
			if !ok {
				return false
			}
		}
		return len(x.Edges) > 0
	case *ssa.Extract:
		if c, ok := x.Tuple.(*ssa.Call); ok {
			return d.callDepends(fn, c, x.Index, base, seen)
		}
	case *ssa.Call:
		return d.callDepends(fn, x, 0, base, seen)
	}
	return false
}

func (d *depCtx) callDepends(fn *ssa.Function, c *ssa.Call, resIdx int, base func(ssa.Value) bool, seen map[ssa.Value]bool) bool {
	sc := c.Common().StaticCallee()
	if sc == nil {
		return false
	}
	if !d.p.InRepo(sc) || len(sc.Blocks) == 0 {
		// library function (e.g. bits.LeadingZeros64): result depends on its arguments
		for _, a := range c.Common().Args {
			if d.dependsAll(fn, a, base, seen) {
				return true
			}
		}
		return false
	}
	for i, a := range c.Common().Args {
		if d.dependsAll(fn, a, base, seen) && d.resultDependsOnParam(sc, resIdx, i) {
			return true
		}
	}
	return false
}

// resultDependsOnParam: on every non-failing return of f, result resIdx is computed from parameter i.
func (d *depCtx) resultDependsOnParam(f *ssa.Function, resIdx, i int) bool {
	key := fmt.Sprintf("%s#%d#%d", f.String(), resIdx, i)
	if v, ok := d.memo[key]; ok {
		return v
	}
	d.memo[key] = false // recursion guard
	if i >= len(f.Params) {
		return false
	}
	par := f.Params[i]
	n, all := 0, true
	for _, b := range f.Blocks {
		r, ok := b.Instrs[len(b.Instrs)-1].(*ssa.Return)
		if !ok || resIdx >= len(r.Results) {
			continue
		}
		// failing returns: (0, non-nil error)
		if len(r.Results) > 1 && !isNilConst(r.Results[len(r.Results)-1]) && isIntConst(r.Results[resIdx], 0) {
			continue
		}
		n++
		if !d.dependsAll(f, r.Results[resIdx], func(v ssa.Value) bool { return v == ssa.Value(par) }, map[ssa.Value]bool{}) {
			all = false
			if os.Getenv("TXLINT_DEBUG_DEP") != "" {
				fmt.Fprintf(os.Stderr, "dep: %s result %d at %s does not depend on param %s\n", f.Name(), resIdx, d.p.InstrPos(r), par.Name())
			}
		}
	}
	res := n > 0 && all
	d.memo[key] = res
	return res
}

func ruleMMAPCOVERSFILE(p *Program, rep *Report) {
	rep.Rule("MMAP-COVERS-FILE", 1, "the size handed to vfs MMap in File.mmap is, on every path, computed from the real file size returned by Size(): a mapping whose size ignores the file size cannot cover pages written past the configured maximum (overflow area), so a reopen cannot read them")
	fn := p.Method("txfile", "File", "mmap")
	rep.Analysed(funcName(fn))
	d := &depCtx{p: p, memo: map[string]bool{}}
	isSize := func(v ssa.Value) bool {
		ex, ok := v.(*ssa.Extract)
		if !ok || ex.Index != 0 {
			return false
		}
		c, ok := ex.Tuple.(*ssa.Call)
		if !ok {
			return false
		}
		if c.Common().IsInvoke() {
			return c.Common().Method.Name() == "Size" && isNamed(c.Common().Value.Type(), modPath+"/internal/vfs", "File")
		}
		return false
	}
	found := false
	for _, b := range fn.Blocks {
		for _, ins := range b.Instrs {
			c, ok := ins.(*ssa.Call)
			if !ok || !c.Common().IsInvoke() || c.Common().Method.Name() != "MMap" {
				continue
			}
			found = true
			key := "File.mmap|MMap-size"
			if d.dependsAll(fn, c.Common().Args[0], isSize, map[ssa.Value]bool{}) {
				rep.OK("MMAP-COVERS-FILE", key, p.InstrPos(ins), "mapping size depends on the file size on every path")
			} else {
				rep.Bad("MMAP-COVERS-FILE", key, p.InstrPos(ins), "on some path the size of the memory mapping is computed without the real file size: a file that grew past the configured maximum (overflow area in use) is mapped too short, the free list / overwrite mapping stored there cannot be read back and Open fails or loses them")
			}
		}
	}
	if !found {
		rep.Unknown("MMAP-COVERS-FILE", "File.mmap|MMap-size", p.Pos(fn.Pos()), "File.mmap no longer calls MMap (anchor lost)")
	}
}

// sameSSAValue: identical SSA values modulo conversions; two constants are the same if their values are
// (every use of a constant is a distinct *ssa.Const).
func sameSSAValue(a, b ssa.Value) bool {
	a, b = stripConv(a), stripConv(b)
	if a == b {
		return true
	}
	ca, ok1 := a.(*ssa.Const)
	cb, ok2 := b.(*ssa.Const)
	if ok1 && ok2 && ca.Value != nil && cb.Value != nil {
		return ca.Value.ExactString() == cb.Value.ExactString()
	}
	return false
}
