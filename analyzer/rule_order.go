package main

import (
	"fmt"
	"sort"
	"strings"
	"time"

	"golang.org/x/tools/go/ssa"
)

type orderRoot struct {
	name      string
	fn        *ssa.Function
	sc        *scenario
	recv      string
	active    int
	init      orderProp
	mayCommit bool
	readonly  bool
	kind      string // commit | abort | open | other | reader
}

type orderRun struct {
	root   orderRoot
	in     *Interp
	pl     *orderPlugin
	exits  []Exit
	failed string
}

func runOrderRoot(p *Program, voc *orderVocab, r orderRoot) (res *orderRun) {
	pl := newOrderPlugin(voc, r.active)
	pl.mayCommit = r.mayCommit
	pl.readonly = r.readonly
	in := newInterp(p, pl)
	in.Relevant = voc.relevant
	res = &orderRun{root: r, in: in, pl: pl}
	defer func() {
		if e := recover(); e != nil {
			if vm, ok := e.(vocabMiss); ok {
				res.failed = vm.Error()
				return
			}
			if debugVerbose {
				panic(e)
			}
			res.failed = fmt.Sprintf("analysis panic: %v", e)
		}
	}()
	init := r.init
	st := newState(&init)
	if r.sc != nil {
		in.applyScenario(st, *r.sc)
	}
	if r.active >= 0 {
		in.applyScenario(st, scenario{consts: map[string]Value{"txfile.File.metaActive": constInt(int64(r.active))}})
	}
	var args []Value
	if r.recv != "" {
		args = recvArgs(in, r.fn, PtrV{cell: in.singleton(p.Named("txfile", r.recv))})
	} else {
		args = make([]Value, len(r.fn.Params))
	}
	res.exits = in.Run(r.fn, args, st)
	res.failed = in.failed
	return res
}

func orderRoots(p *Program) []orderRoot {
	var roots []orderRoot
	rw := txScenario(false, true)
	ro := txScenario(true, true)
	commitInit := orderProp{st: "dirty", slot: -1, unwaited: true, stickyErr: true, inTx: true}
	for _, a := range []int{0, 1} {
		sc := rw
		roots = append(roots, orderRoot{name: fmt.Sprintf("Tx.Commit[metaActive=%d]", a), fn: p.Method("txfile", "Tx", "Commit"), sc: &sc, recv: "Tx",
			active: a, init: commitInit, mayCommit: true, kind: "commit"})
	}
	roots = append(roots, orderRoot{name: "Open", fn: p.Func("txfile", "Open"), active: -1, init: orderProp{st: "clean", slot: -1}, mayCommit: true, kind: "open"})
	for _, fn := range methodsOf(p, "txfile", "Tx", true) {
		sc, sr := rw, ro
		kind := "other"
		switch fn.Name() {
		case "Commit":
			kind = ""
		case "Rollback", "Close":
			kind = "abort"
		}
		if kind != "" {
			roots = append(roots, orderRoot{name: "Tx." + fn.Name() + "[rw]", fn: fn, sc: &sc, recv: "Tx", active: -1, init: commitInit, kind: kind})
		}
		roots = append(roots, orderRoot{name: "Tx." + fn.Name() + "[ro]", fn: fn, sc: &sr, recv: "Tx", active: -1, init: orderProp{st: "clean", slot: -1, inTx: true}, readonly: true, kind: "reader"})
	}
	for _, fn := range methodsOf(p, "txfile", "Page", true) {
		sc, sr := rw, ro
		roots = append(roots, orderRoot{name: "Page." + fn.Name() + "[rw]", fn: fn, sc: &sc, recv: "Page", active: -1, init: commitInit, kind: "other"})
		roots = append(roots, orderRoot{name: "Page." + fn.Name() + "[ro]", fn: fn, sc: &sr, recv: "Page", active: -1, init: orderProp{st: "clean", slot: -1, inTx: true}, readonly: true, kind: "reader"})
	}
	return roots
}

// orderRuleOf maps an engine report kind to the rule name it is an instance of.
var orderRules = map[string]string{
	"ORDER": "ORDER", "SLOT": "SLOT", "STICKY-BARRIER": "ORDER", "COMMITPOINT": "COMMITPOINT", "FINALIZE": "FINALIZE",
	"READER-PASSIVE": "READER-IS-PASSIVE", "WHO-MAY-SWITCH": "WHO-MAY-SWITCH",
}

// ruleORDER runs the commit-protocol roots; want selects which rule families are turned into obligations.
func ruleORDER(p *Program, rep *Report, want map[string]bool) {
	decl := func(name string, floor int, desc string) {
		if want[name] {
			rep.Rule(name, floor, desc)
		}
	}
	decl("ORDER", 3, "data -> sync -> header(inactive slot) -> sync -> Wait()==nil -> in-memory switch, as a typestate over the interprocedural event trace of Tx.Commit and Open")
	decl("SLOT", 2, "the header is written to the inactive slot and File.metaActive is switched to the slot written (constant folding under metaActive in {0,1})")
	decl("COMMITPOINT", 1, "no error return and no allocator rollback after the in-memory switch")
	decl("COMMIT-ERROR-PATH", 2, "every exit of Commit has waited for the writer; a failed Wait is followed by a sync carrying syncResetErr and another Wait")
	decl("ROLLBACK-ON-EVERY-FAILURE", 3, "every failing Commit and every Rollback/Close of a write transaction runs the allocator rollback exactly once; a successful Commit never does")
	decl("FINALIZE", 2, "a header buffer is Finalize()d (checksum) after its last field update before it is written")
	decl("READER-IS-PASSIVE", 10, "no page write, header write, switch or rollback is reachable from any Tx/Page method of a read-only transaction")
	decl("WHO-MAY-SWITCH", 10, "header writes and in-memory switches happen only below Tx.Commit and the open-time init transactions")

	voc := newOrderVocab(p)
	for _, r := range orderRoots(p) {
		if debugRoot != "" && !strings.Contains(r.name, debugRoot) {
			continue
		}
		switch r.kind {
		case "reader":
			if !want["READER-IS-PASSIVE"] {
				continue
			}
		case "other":
			if !want["WHO-MAY-SWITCH"] {
				continue
			}
		case "abort":
			if !want["ROLLBACK-ON-EVERY-FAILURE"] && !want["WHO-MAY-SWITCH"] {
				continue
			}
		}
		t0 := time.Now()
		run := runOrderRoot(p, voc, r)
		if debugVerbose {
			fmt.Printf("order root %-40s %6.2fs exits=%d reports=%d calls=%d events=%v failed=%q\n", r.name, time.Since(t0).Seconds(), len(run.exits), len(run.in.reports), interpBudget-run.in.budget, run.pl.events, run.failed)
			if debugRoot != "" {
				for _, e := range run.exits {
					fmt.Printf("      exit err=%d prop=%s\n", errOfExit(r.fn, e), e.st.prop.Key())
				}
				for _, ar := range run.in.reports {
					fmt.Println("      report:", ar.Kind, ar.Msg, ar.Pos, strings.Join(ar.Chain, ">"))
				}
			}
		}
		checkOrderRun(rep, run, want)
	}
}

func checkOrderRun(rep *Report, run *orderRun, want map[string]bool) {
	r := run.root
	p := run.in.P
	rep.Analysed(run.in.enteredNames()...)
	pos := p.Pos(r.fn.Pos())
	primary := map[string]string{"commit": "ORDER", "open": "ORDER", "abort": "ROLLBACK-ON-EVERY-FAILURE", "other": "WHO-MAY-SWITCH", "reader": "READER-IS-PASSIVE"}[r.kind]
	if !want[primary] {
		for _, alt := range []string{"ORDER", "COMMITPOINT", "COMMIT-ERROR-PATH", "ROLLBACK-ON-EVERY-FAILURE", "SLOT", "FINALIZE", "WHO-MAY-SWITCH"} {
			if want[alt] {
				primary = alt
				break
			}
		}
	}
	if run.failed != "" {
		rep.Unknown(primary, r.name, pos, "analysis did not complete: "+run.failed)
		return
	}
	reported := map[string]bool{}
	for _, ar := range run.in.reports {
		rule, ok := orderRules[ar.Kind]
		if !ok || !want[rule] {
			continue
		}
		reported[rule] = true
		rep.Bad(rule, fmt.Sprintf("%s|%s|%s", baseName(r.name), ar.Fn, ar.Msg), ar.Pos, ar.Msg, "root "+r.name, "via "+strings.Join(ar.Chain, ">"))
	}
	ev := run.pl.events
	evs := func() string {
		var ks []string
		for k, v := range ev {
			ks = append(ks, fmt.Sprintf("%s=%d", k, v))
		}
		sort.Strings(ks)
		return strings.Join(ks, " ")
	}
	if len(run.exits) == 0 {
		rep.Unknown(primary, r.name, pos, "no exit reached")
		return
	}
	bad := func(rule, what, detail string) {
		if want[rule] {
			reported[rule] = true
			rep.Bad(rule, baseName(r.name)+"|"+what, pos, detail, "root "+r.name)
		}
	}
	for _, e := range run.exits {
		op := e.st.prop.(*orderProp)
		en := errOfExit(r.fn, e)
		eff := op.st
		if op.st == "hdrSynced" && op.waitSym != 0 && e.st.nilF[op.waitSym] == 1 {
			eff = "durable"
		}
		if op.st == "hdr" {
			bad("ORDER", "exit-in-hdr", "an exit is reached with the header written but not synced")
		}
		switch r.kind {
		case "commit":
			if en != 2 { // success (or undetermined) return
				if eff != "durable" || !op.switched || op.hdrWrites != 1 {
					bad("ORDER", "success-not-durable", fmt.Sprintf("Commit can return nil in state %s (switched=%v, header writes=%d): success must imply a durable header and a completed switch", eff, op.switched, op.hdrWrites))
				}
				if op.rollbacks != 0 {
					bad("ROLLBACK-ON-EVERY-FAILURE", "rollback-on-success", "a successful Commit runs the allocator rollback")
				}
			}
			if en != 1 { // error return
				if op.switched {
					bad("COMMITPOINT", "error-return-after-switch", "Commit returns an error after the in-memory switch (allocator/WAL/metaActive already point at the new state; the deferred rollback then runs on the committed state)")
				}
				if !op.switched && op.rollbacks != 1 {
					bad("ROLLBACK-ON-EVERY-FAILURE", fmt.Sprintf("failed-commit-rollbacks=%d", op.rollbacks), fmt.Sprintf("a Commit failing before the commit point runs the allocator rollback %d time(s), expected exactly once", op.rollbacks))
				}
				if op.switched && op.rollbacks != 0 {
					bad("COMMITPOINT", "rollback-after-switch", "a Commit failing after the commit point still runs the allocator rollback")
				}
			}
			if op.unwaited {
				bad("COMMIT-ERROR-PATH", "exit-without-wait", "an exit of Commit is reached while writer operations of the transaction are outstanding (no Wait after the last Schedule/Sync)")
			}
			if op.stickyErr && (op.lastWait == 0 || e.st.nilF[op.lastWait] != 1) {
				bad("COMMIT-ERROR-PATH", "no-error-reset", "an exit of Commit is reached after a possibly failed Wait without a sync carrying syncResetErr: the writer stays in its sticky error state")
			}
		case "abort":
			if op.rollbacks != 1 {
				bad("ROLLBACK-ON-EVERY-FAILURE", fmt.Sprintf("abort-rollbacks=%d", op.rollbacks), fmt.Sprintf("%s of an active write transaction runs the allocator rollback %d time(s), expected exactly once", r.fn.Name(), op.rollbacks))
			}
		case "open":
			if op.inTx && op.unwaited {
				bad("COMMIT-ERROR-PATH", "open-exit-without-wait", "Open returns while writer operations of an init transaction are outstanding")
			}
		case "reader":
			if op.rollbacks != 0 {
				bad("READER-IS-PASSIVE", "reader-rollback", "allocator rollback reachable from a read-only transaction")
			}
		}
	}
	if r.kind == "reader" && (ev["schedule"] > 0 || ev["sync"] > 0 || ev["switch"] > 0) && !reported["READER-IS-PASSIVE"] {
		bad("READER-IS-PASSIVE", "events", "writer events reachable from a read-only transaction: "+evs())
	}
	// discharge the rules this root is an instance of
	ok := func(rule string) {
		if want[rule] && !reported[rule] {
			rep.OK(rule, r.name, pos, fmt.Sprintf("%d exit class(es); events: %s", len(run.exits), evs()))
		}
	}
	switch r.kind {
	case "commit":
		for _, rule := range []string{"ORDER", "SLOT", "COMMITPOINT", "COMMIT-ERROR-PATH", "ROLLBACK-ON-EVERY-FAILURE", "FINALIZE"} {
			ok(rule)
		}
	case "open":
		for _, rule := range []string{"ORDER", "SLOT", "COMMIT-ERROR-PATH", "FINALIZE"} {
			ok(rule)
		}
	case "abort":
		ok("ROLLBACK-ON-EVERY-FAILURE")
		ok("WHO-MAY-SWITCH")
	case "other":
		ok("WHO-MAY-SWITCH")
	case "reader":
		ok("READER-IS-PASSIVE")
	}
}

// baseName strips the scenario suffix of a root name: violations are keyed by the API root, not by the
// scenario constant under which they were found.
func baseName(n string) string {
	if i := strings.Index(n, "[metaActive="); i >= 0 {
		return n[:i]
	}
	return n
}
