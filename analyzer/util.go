package main

import (
	"encoding/json"
	"os"
)

func jsonUnmarshal(b []byte, v interface{}) error { return json.Unmarshal(b, v) }

func readVariantResults(path string) []VariantResult {
	b, err := os.ReadFile(path)
	if err != nil {
		return nil
	}
	var v []VariantResult
	if json.Unmarshal(b, &v) != nil {
		return nil
	}
	return v
}
