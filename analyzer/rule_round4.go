package main

// Rules added after the fourth round of independently seeded changes (DESIGN.md §8.8).

import (
	"fmt"
	"go/token"
	"go/types"
	"sort"
	"strings"

	"golang.org/x/tools/go/ssa"
)

// ---- must-pass-through with helper summaries ----

// everyReturnPasses: every Return of fn that is reachable from the entry executes, before it, an
// instruction matching pred — directly, or inside a statically called repository function all of whose
// returns pass (depth-bounded), or as a deferred call that is registered on every path.
func everyReturnPasses(p *Program, fn *ssa.Function, pred func(ssa.Instruction) bool, depth int) bool {
	if fn == nil || len(fn.Blocks) == 0 || depth > 3 {
		return false
	}
	match := func(ins ssa.Instruction) bool {
		if pred(ins) {
			return true
		}
		if c, ok := ins.(ssa.CallInstruction); ok {
			if _, isGo := ins.(*ssa.Go); isGo {
				return false
			}
			if cal := c.Common().StaticCallee(); cal != nil && fnPkgPath(cal) != "" && strings.HasPrefix(fnPkgPath(cal), modPath) && cal != fn {
				return everyReturnPasses(p, cal, pred, depth+1)
			}
		}
		return false
	}
	blocked := map[*ssa.BasicBlock]bool{}
	for _, b := range fn.Blocks {
		for _, ins := range b.Instrs {
			if match(ins) {
				blocked[b] = true
				break
			}
		}
	}
	reach := reachableAvoiding(fn.Blocks[0], blocked, nil)
	for b := range reach {
		if _, ok := b.Instrs[len(b.Instrs)-1].(*ssa.Return); ok {
			return false
		}
	}
	return true
}

// storesToField: instruction stores to the given struct field (through a FieldAddr).
func storesToField(ins ssa.Instruction, f *types.Var) (*ssa.Store, bool) {
	st, ok := ins.(*ssa.Store)
	if !ok {
		return nil, false
	}
	fa, ok := st.Addr.(*ssa.FieldAddr)
	if !ok {
		return nil, false
	}
	return st, fieldOfAddr(fa) == f
}

// ruleQUEUEUNCONDITIONAL (C01, C08): the hand-off to the background writer is unconditional.  A sync request
// is more than an fsync: it is the barrier that orders the header behind the data pages, the only carrier
// of syncResetErr (which clears the writer's sticky error after a failed commit) and the point at which
// the waiting transaction is released.  So every call of writer.Sync must enqueue its message, whatever
// the sync mode or other configuration — and likewise writer.Schedule for page writes.
func ruleQUEUEUNCONDITIONAL(p *Program, rep *Report) {
	rep.Rule("QUEUE-UNCONDITIONAL", 2, "every path through writer.Schedule / writer.Sync retains the transaction's txWriteSync, appends a message built from all of its arguments to the writer's queue and wakes the writer: no configuration (sync mode) may turn a barrier into a no-op on the scheduling side, because the barrier also carries the error reset and the completion hand-off")
	type inst struct {
		method, field string
	}
	retain := p.Method("txfile", "txWriteSync", "Retain")
	for _, it := range []inst{{"Schedule", "scheduled"}, {"Sync", "fsync"}} {
		fn := p.Method("txfile", "writer", it.method)
		f := p.FieldVar("txfile", "writer", it.field)
		rep.Analysed(funcName(fn))
		key := "writer." + it.method + "|enqueue"
		pos := p.Pos(fn.Pos())
		var problems []string
		if !everyReturnPasses(p, fn, func(ins ssa.Instruction) bool { _, ok := storesToField(ins, f); return ok }, 0) {
			problems = append(problems, "some path returns without appending to writer."+it.field)
		}
		if !everyReturnPasses(p, fn, func(ins ssa.Instruction) bool {
			c, ok := ins.(ssa.CallInstruction)
			return ok && c.Common().StaticCallee() == retain
		}, 0) {
			problems = append(problems, "some path returns without txWriteSync.Retain (Wait would not wait for this request)")
		}
		if !everyReturnPasses(p, fn, func(ins ssa.Instruction) bool {
			c, ok := ins.(ssa.CallInstruction)
			if !ok {
				return false
			}
			sc := c.Common().StaticCallee()
			return isSyncMethod(sc, "Cond", "Signal") || isSyncMethod(sc, "Cond", "Broadcast")
		}, 0) {
			problems = append(problems, "some path returns without waking the writer (Cond.Signal)")
		}
		// the queued message is built from every argument
		var stores []*ssa.Store
		for fr := range staticReach(p, fn) {
			if fnPkgPath(fr) != modPath {
				continue
			}
			for _, b := range fr.Blocks {
				for _, ins := range b.Instrs {
					if st, ok := storesToField(ins, f); ok {
						stores = append(stores, st)
					}
				}
			}
		}
		if len(stores) == 0 {
			rep.Unknown("QUEUE-UNCONDITIONAL", key, pos, "no store to writer."+it.field+" below writer."+it.method+" (anchor lost)")
			continue
		}
		for _, par := range fn.Params[1:] {
			used := false
			for _, st := range stores {
				s := &slicer{p: p, fields: map[*types.Var]bool{}, seen: map[sliceKey]bool{}, within: staticReach(p, fn)}
				s.walk(st.Val, 0, nil, 0)
				for k := range s.seen {
					if k.v == par {
						used = true
					}
				}
			}
			if !used {
				problems = append(problems, "argument "+par.Name()+" does not reach the queued message")
			}
		}
		if len(problems) == 0 {
			rep.OK("QUEUE-UNCONDITIONAL", key, pos, fmt.Sprintf("retain, append to writer.%s (all %d arguments), signal on every path", it.field, len(fn.Params)-1))
		} else {
			sort.Strings(problems)
			rep.Bad("QUEUE-UNCONDITIONAL", key, pos, "writer."+it.method+": "+strings.Join(problems, "; ")+" — a request that is not queued is never executed: the barrier order, the reset of the writer's sticky error (syncResetErr) and the release of the waiting transaction all depend on the message")
		}
	}
}

// ruleBOUNDSOURCE (C15, C02): the page-id bound of a read-only transaction is a snapshot of the COMMITTED
// header (metaPage.dataEndMarker).  The allocator's end marker is the working value of the running write
// transaction; a bound read from it admits page ids that were never committed (and keeps admitting them
// after that writer rolled back).
func ruleBOUNDSOURCE(p *Program, rep *Report) {
	rep.Rule("BOUND-SOURCE", 1, "every value stored into Tx.dataEndID (the upper page-id bound of read-only transactions) is computed from the committed header's dataEndMarker and does not depend on the live allocator state (allocArea.endMarker)")
	bound := p.FieldVar("txfile", "Tx", "dataEndID")
	hdr := p.FieldVar("txfile", "metaPage", "dataEndMarker")
	live := p.FieldVar("txfile", "allocArea", "endMarker")
	n := 0
	for _, fn := range p.SrcFuncs() {
		if fnPkgPath(fn) != modPath {
			continue
		}
		for _, b := range fn.Blocks {
			for _, ins := range b.Instrs {
				st, ok := storesToField(ins, bound)
				if !ok {
					continue
				}
				n++
				rep.Analysed(funcName(fn))
				key := funcName(fn) + "|Tx.dataEndID"
				s := &slicer{p: p, fields: map[*types.Var]bool{}, seen: map[sliceKey]bool{}, within: map[*ssa.Function]bool{}}
				for _, site := range p.callIndex().sites[fn] {
					s.within[site.Parent()] = true
				}
				s.walk(st.Val, 0, nil, 0)
				switch {
				case s.fields[live]:
					rep.Bad("BOUND-SOURCE", key, p.InstrPos(ins), "the read-only page bound Tx.dataEndID depends on allocArea.endMarker, the working end marker of the active write transaction: a reader begun while a writer has uncommitted allocations accepts page ids beyond the committed state instead of reporting InvalidPageID")
				case !s.fields[hdr]:
					rep.Bad("BOUND-SOURCE", key, p.InstrPos(ins), "the read-only page bound Tx.dataEndID is not computed from the committed header's dataEndMarker")
				default:
					rep.OK("BOUND-SOURCE", key, p.InstrPos(ins), "snapshot of metaPage.dataEndMarker")
				}
			}
		}
	}
	if n == 0 {
		rep.Unknown("BOUND-SOURCE", "anchor", "", "no store to Tx.dataEndID found (anchor lost)")
	}
}

// ---- ALLOC-UNDOABLE (C07, C11, C04) ----

// undoFlow decides whether a value (a region / page id taken out of a FREELIST) reaches, on the way it is
// handed around, one of the journals from which allocator.Rollback returns pages to a freelist:
// txAllocArea.allocated (allocArea.rollback adds it back) or txAreaManageState.moveToMeta (Rollback moves
// those regions into data.allocated).  txAllocArea.new does NOT count: pages recorded there are undone by
// restoring the end marker only, which is right for pages taken from beyond the end marker and loses
// pages that came out of a freelist.
type undoFlow struct {
	v    *allocVocab
	p    *Program
	seenK map[undoKey]bool
}

// isUndoJournal: x is the address of an undo journal; a parameter is resolved through the call the analysis
// came through (site), so a helper that receives the journal to record in is judged per caller.
func (u *undoFlow) isUndoJournal(x ssa.Value, site ssa.CallInstruction) bool {
	switch a := x.(type) {
	case *ssa.FieldAddr:
		f := fieldOfAddr(a)
		return f == u.v.fAllocated || f == u.v.fMoveToMeta
	case *ssa.Parameter:
		if site != nil && site.Common().StaticCallee() == a.Parent() {
			if pi := paramIndex(a.Parent(), a); pi >= 0 && pi < len(site.Common().Args) {
				return u.isUndoJournal(site.Common().Args[pi], nil)
			}
		}
	}
	return false
}

type undoKey struct {
	v    ssa.Value
	site ssa.CallInstruction
}

func (u *undoFlow) reaches(val ssa.Value, site ssa.CallInstruction, depth int) bool {
	k := undoKey{val, site}
	if val == nil || depth > 6 || u.seenK[k] {
		return false
	}
	u.seenK[k] = true
	d := forwardDerived(val)
	fn := val.Parent()
	for x := range d {
		refs := x.Referrers()
		if refs == nil {
			continue
		}
		for _, r := range *refs {
			switch y := r.(type) {
			case ssa.CallInstruction:
				args := y.Common().Args
				sc := y.Common().StaticCallee()
				// journal.Add(derived) — pageSet.Add / regionList.Add with the journal as receiver
				if len(args) >= 2 && u.isUndoJournal(args[0], site) {
					for _, a := range args[1:] {
						if d[a] {
							return true
						}
					}
				}
				// derived.EachPage(journal.Add)
				if len(args) >= 1 && d[args[0]] {
					for _, a := range args[1:] {
						if mc, ok := resolveFuncValue(a, 0).(*ssa.MakeClosure); ok {
							if g, ok := mc.Fn.(*ssa.Function); ok && strings.HasSuffix(g.Name(), "$bound") && len(mc.Bindings) == 1 && u.isUndoJournal(mc.Bindings[0], site) {
								return true
							}
						}
					}
				}
				// helper called with the derived value
				if sc != nil && u.p.InRepo(sc) && len(sc.Blocks) > 0 {
					for i, a := range args {
						if d[a] && i < len(sc.Params) && u.reaches(sc.Params[i], y, depth+1) {
							return true
						}
					}
				}
				// callback parameter called with the derived value: resolve the closure at every call site
				if par, ok := y.Common().Value.(*ssa.Parameter); ok && !y.Common().IsInvoke() && fn != nil {
					hit := false
					for i, a := range args {
						if !d[a] {
							continue
						}
						if u.callbackReaches(fn, par, i, depth+1) {
							hit = true
						}
					}
					if hit {
						return true
					}
				}
				if fv, ok := y.Common().Value.(*ssa.FreeVar); ok && !y.Common().IsInvoke() && fn != nil {
					// closure calling a captured callback: resolve through the enclosing function's parameter
					if outer := fn.Parent(); outer != nil {
						for _, b := range outer.Blocks {
							for _, ins := range b.Instrs {
								mc, ok := ins.(*ssa.MakeClosure)
								if !ok || mc.Fn != ssa.Value(fn) {
									continue
								}
								for bi, fvv := range fn.FreeVars {
									if fvv != fv || bi >= len(mc.Bindings) {
										continue
									}
									if opar, ok := mc.Bindings[bi].(*ssa.Parameter); ok {
										for i, a := range args {
											if d[a] && u.callbackReaches(outer, opar, i, depth+1) {
												return true
											}
										}
									}
								}
							}
						}
					}
				}
			case *ssa.Return:
				if fn == nil {
					continue
				}
				idx := -1
				for i, rv := range y.Results {
					if d[rv] {
						idx = i
					}
				}
				if idx < 0 {
					continue
				}
				sites := u.p.callIndex().sites[fn]
				if site != nil && site.Common().StaticCallee() == fn {
					sites = []ssa.CallInstruction{site}
				}
				if len(sites) == 0 {
					continue
				}
				all := true
				for _, site := range sites {
					sv := site.Value()
					if sv == nil {
						all = false
						break
					}
					var rv ssa.Value = sv
					if fn.Signature.Results().Len() > 1 {
						rv = nil
						if sv.Referrers() != nil {
							for _, rr := range *sv.Referrers() {
								if ex, ok := rr.(*ssa.Extract); ok && ex.Index == idx {
									rv = ex
								}
							}
						}
					}
					if rv == nil || !u.reaches(rv, nil, depth+1) {
						all = false
						break
					}
				}
				if all {
					return true
				}
			}
		}
	}
	return false
}

// callbackReaches: at every call site of fn the function value passed for parameter par records its
// argIdx-th argument in an undo journal.
func (u *undoFlow) callbackReaches(fn *ssa.Function, par *ssa.Parameter, argIdx int, depth int) bool {
	pi := paramIndex(fn, par)
	sites := u.p.callIndex().sites[fn]
	if pi < 0 || len(sites) == 0 {
		return false
	}
	for _, site := range sites {
		if pi >= len(site.Common().Args) {
			return false
		}
		var g *ssa.Function
		var bindRecv ssa.Value
		switch a := site.Common().Args[pi].(type) {
		case *ssa.MakeClosure:
			g, _ = a.Fn.(*ssa.Function)
			if g != nil && strings.HasSuffix(g.Name(), "$bound") && len(a.Bindings) == 1 {
				bindRecv = a.Bindings[0]
			}
		case *ssa.Function:
			g = a
		case *ssa.Parameter:
			// passed through: follow one more level
			if !u.callbackReaches(site.Parent(), a, argIdx, depth+1) {
				return false
			}
			continue
		}
		if g == nil {
			return false
		}
		if bindRecv != nil {
			if !u.isUndoJournal(bindRecv, nil) {
				return false
			}
			continue
		}
		if argIdx >= len(g.Params) || !u.reaches(g.Params[argIdx], nil, depth+1) {
			return false
		}
	}
	return true
}

func ruleALLOCUNDOABLE(p *Program, rep *Report) {
	rep.Rule("ALLOC-UNDOABLE", 2, "every region/page taken out of a FREELIST before the commit reaches a journal from which allocator.Rollback returns pages to that freelist — txAllocArea.allocated or txAreaManageState.moveToMeta — on the way it is handed around (helpers, callbacks, results followed to every caller); txAllocArea.new is not such a journal (it is undone by restoring the end marker only)")
	v := newAllocVocab(p)
	n := 0
	for _, fn := range p.SrcFuncs() {
		if fnPkgPath(fn) != modPath || v.flAllocs[fn] || strings.HasPrefix(funcName(fn), "(*txfile.freelist)") {
			continue
		}
		for _, b := range fn.Blocks {
			for _, ins := range b.Instrs {
				c, ok := ins.(ssa.CallInstruction)
				if !ok || !v.flAllocs[c.Common().StaticCallee()] {
					continue
				}
				callee := c.Common().StaticCallee()
				outer := fn
				for outer.Parent() != nil {
					outer = outer.Parent()
				}
				if !preCommitReachable(p, outer) {
					continue
				}
				n++
				key := funcName(outer) + "|" + callee.Name()
				rep.Analysed(funcName(outer))
				// judged per caller of the (non-exported) function holding the primitive: a shared helper may be
				// handed the journal, or hand the region back, differently by each of its callers
				var ctxs []ssa.CallInstruction
				if !exportedAPI(fn) && fn.Parent() == nil {
					ctxs = p.callIndex().sites[fn]
				}
				if len(ctxs) == 0 {
					ctxs = []ssa.CallInstruction{nil}
				}
				ok2 := true
				badCtx := ""
				for _, ctx := range ctxs {
					u := &undoFlow{v: v, p: p, seenK: map[undoKey]bool{}}
					okc := false
					if val := c.Value(); val != nil && u.reaches(val, ctx, 0) {
						okc = true
					}
					if !okc {
						for _, a := range c.Common().Args {
							if mc, isC := a.(*ssa.MakeClosure); isC {
								if g, isF := mc.Fn.(*ssa.Function); isF {
									for _, par := range g.Params {
										if u.reaches(par, ctx, 0) {
											okc = true
										}
									}
								}
							}
						}
					}
					if !okc {
						ok2 = false
						if ctx != nil {
							badCtx = " (called from " + funcName(ctx.Parent()) + ")"
						}
					}
				}
				if ok2 {
					rep.OK("ALLOC-UNDOABLE", key, p.InstrPos(ins), "pages taken from the freelist reach txAllocArea.allocated / moveToMeta")
				} else {
					rep.Bad("ALLOC-UNDOABLE", key, p.InstrPos(ins), "pages taken out of a freelist by "+callee.Name()+" in "+funcName(outer)+badCtx+" never reach txAllocArea.allocated or the moveToMeta journal: after Rollback/Close/failed Commit they are in no freelist and in no live structure — leaked (recording them in txAllocArea.new only restores the end marker, which does not cover freelist pages)")
				}
			}
		}
	}
	if n == 0 {
		rep.Unknown("ALLOC-UNDOABLE", "anchor", "", "no pre-commit freelist allocation site found (anchor lost)")
	}
}

// preCommitReachable: fn is reachable from the Tx/Page API other than through the commit-time switch
// (allocator.Commit and below are not pre-commit).  AllocAllRegions-style open-time use is excluded by
// requiring reachability from an exported Tx or Page method.
func preCommitReachable(p *Program, fn *ssa.Function) bool {
	roots := []*ssa.Function{}
	for _, typ := range []string{"Tx", "Page"} {
		roots = append(roots, methodsOf(p, "txfile", typ, true)...)
	}
	return staticReach(p, roots...)[fn]
}

// ---- EVENT-BOUNDARY (C12, C13, C17) ----

// ruleEVENTBOUNDARY: Writer.Next publishes the finished event into the write buffer (buffer.CommitEvent) and
// then moves the writer's per-event state to the next event.  The implicit flush at the end of Next can
// fail (file full); the event is published all the same and is flushed by a later call.  So every
// writeState field that the successful path updates after CommitEvent has to be updated on the failing
// path too — otherwise the next event is framed with the previous event's byte count / id / counters.
func ruleEVENTBOUNDARY(p *Program, rep *Report) {
	rep.Rule("EVENT-BOUNDARY", 2, "in Writer.Next every writeState field whose update lies on every successful path after buffer.CommitEvent is also updated on every failing path after it (a failed implicit flush must not skip the per-event bookkeeping: the event is already published in the buffer)")
	next := p.Method("pq", "Writer", "Next")
	commitEv := p.Method("pq", "buffer", "CommitEvent")
	ws := p.Struct("pq", "writeState")
	rep.Analysed(funcName(next))
	isWS := map[*types.Var]bool{}
	for i := 0; i < ws.NumFields(); i++ {
		isWS[ws.Field(i)] = true
	}
	var cBlk *ssa.BasicBlock
	cIdx := -1
	isCommit := func(x ssa.Instruction) bool {
		c, ok := x.(ssa.CallInstruction)
		return ok && c.Common().StaticCallee() == commitEv
	}
	for _, b := range next.Blocks {
		for i, ins := range b.Instrs {
			c, ok := ins.(ssa.CallInstruction)
			if !ok {
				continue
			}
			if _, isDefer := ins.(*ssa.Defer); isDefer {
				continue
			}
			cal := c.Common().StaticCallee()
			// the publication itself, or a helper of package pq that publishes on every one of its return paths
			if cal == commitEv || (cal != nil && fnPkgPath(cal) == modPath+"/pq" && len(cal.Blocks) > 0 && everyReturnPasses(p, cal, isCommit, 0)) {
				cBlk, cIdx = b, i
			}
		}
	}
	if cBlk == nil {
		rep.Unknown("EVENT-BOUNDARY", "Writer.Next|anchor", p.Pos(next.Pos()), "Writer.Next does not call buffer.CommitEvent, directly or through a helper that always does (anchor lost)")
		return
	}
	// blocks storing each field after the commit point
	storeBlocks := map[*types.Var]map[*ssa.BasicBlock]bool{}
	after := reachableAvoiding(cBlk, nil, nil)
	for _, b := range next.Blocks {
		for i, ins := range b.Instrs {
			st, ok := ins.(*ssa.Store)
			if !ok {
				continue
			}
			fa, ok := st.Addr.(*ssa.FieldAddr)
			if !ok || !isWS[fieldOfAddr(fa)] {
				continue
			}
			if b == cBlk && i < cIdx {
				continue
			}
			if b != cBlk && !after[b] {
				continue
			}
			f := fieldOfAddr(fa)
			if storeBlocks[f] == nil {
				storeBlocks[f] = map[*ssa.BasicBlock]bool{}
			}
			storeBlocks[f][b] = true
		}
	}
	// bookkeeping extracted into a helper: a call (after the commit point) of a pq function that stores the
	// field on every one of its return paths counts as the update
	for _, b := range next.Blocks {
		for i, ins := range b.Instrs {
			c, ok := ins.(ssa.CallInstruction)
			if !ok || (b == cBlk && i < cIdx) || (b != cBlk && !after[b]) {
				continue
			}
			cal := c.Common().StaticCallee()
			if cal == nil || cal == commitEv || fnPkgPath(cal) != modPath+"/pq" || len(cal.Blocks) == 0 {
				continue
			}
			if _, isDefer := ins.(*ssa.Defer); isDefer {
				continue
			}
			for i := 0; i < ws.NumFields(); i++ {
				f := ws.Field(i)
				if everyReturnPasses(p, cal, func(x ssa.Instruction) bool { _, ok := storesToField(x, f); return ok }, 0) {
					if storeBlocks[f] == nil {
						storeBlocks[f] = map[*ssa.BasicBlock]bool{}
					}
					storeBlocks[f][b] = true
				}
			}
		}
	}
	var names []string
	byName := map[string]*types.Var{}
	for f := range storeBlocks {
		names = append(names, f.Name())
		byName[f.Name()] = f
	}
	sort.Strings(names)
	n := 0
	for _, name := range names {
		f := byName[name]
		blocked := storeBlocks[f]
		if blocked[cBlk] {
			n++
			rep.OK("EVENT-BOUNDARY", "Writer.Next|"+name, p.Pos(next.Pos()), "updated together with CommitEvent")
			continue
		}
		reach := reachableAvoiding(cBlk, blocked, nil)
		okSuccess, okFail := true, true
		var failPos string
		for b := range reach {
			r, isRet := b.Instrs[len(b.Instrs)-1].(*ssa.Return)
			if !isRet {
				continue
			}
			if returnsNilError(r) {
				okSuccess = false
			} else {
				okFail = false
				failPos = p.InstrPos(r)
			}
		}
		if !okSuccess {
			continue // conditional bookkeeping (min/max/timestamps): not an every-event update
		}
		n++
		if okFail {
			rep.OK("EVENT-BOUNDARY", "Writer.Next|"+name, p.Pos(next.Pos()), "updated on every path after CommitEvent")
		} else {
			rep.Bad("EVENT-BOUNDARY", "Writer.Next|"+name, failPos, "writeState."+name+" is updated on every successful path of Writer.Next after buffer.CommitEvent but not on the error return at "+failPos+": when the implicit flush fails (file full) the event is published but the writer's per-event state is not advanced — the next event is framed with stale "+name+" (wrong size header / duplicate id / wrong counters), corrupting everything the reader parses behind it")
		}
	}
	if n == 0 {
		rep.Unknown("EVENT-BOUNDARY", "Writer.Next|anchor", p.Pos(next.Pos()), "no writeState update after CommitEvent found (anchor lost)")
	}
}

// ---- PERSIST-MEMORY-AGREE (C10) ----

// rulePERSISTMEMORYAGREE: at commit the allocator state is written twice — into the new header
// (allocator.fileCommitMeta) and, after the commit point, into memory (allocator.Commit).  A reopened
// file loads the header value into the very field the running instance updated in memory
// (readAllocatorState gives the pairing).  Both values must therefore be computed from the same inputs:
// the rule compares, per header field, the set of allocator / transaction state fields the persisted
// value depends on with the set the in-memory value depends on (interprocedural backward DATA slices — control
// dependence is left out on both sides, it only adds the guards of the enclosing function —; the fields of
// the intermediate allocCommitState are expanded through the stores that define them).
func rulePERSISTMEMORYAGREE(p *Program, rep *Report) {
	rep.Rule("PERSIST-MEMORY-AGREE", 3, "for every allocator header field, the value persisted by fileCommitMeta and the value allocator.Commit assigns to the in-memory field that readAllocatorState loads from that header field depend on the same allocator/transaction state (backward slices, allocCommitState fields expanded): a reopened file then starts from what the running instance had")
	hdr := p.Struct("txfile", "metaPage")
	cs := p.Struct("txfile", "allocCommitState")
	isHdr, isCS := map[*types.Var]bool{}, map[*types.Var]bool{}
	for i := 0; i < hdr.NumFields(); i++ {
		isHdr[hdr.Field(i)] = true
	}
	for i := 0; i < cs.NumFields(); i++ {
		isCS[cs.Field(i)] = true
	}
	loader := p.Func("txfile", "readAllocatorState")
	commitMeta := p.Method("txfile", "allocator", "fileCommitMeta")
	commit := p.Method("txfile", "allocator", "Commit")
	rep.Analysed(funcName(loader), funcName(commitMeta), funcName(commit))
	memOwner := func(f *types.Var) bool {
		o := fieldOwner(p, f)
		return o == "allocator" || o == "allocArea"
	}
	// location name of a store address: "<area>.<field>" for fields of an embedded area, else "<owner>.<field>"
	locOf := func(addr ssa.Value, site ssa.CallInstruction) string {
		fa, ok := addr.(*ssa.FieldAddr)
		if !ok || !memOwner(fieldOfAddr(fa)) {
			return ""
		}
		f := fieldOfAddr(fa)
		switch base := fa.X.(type) {
		case *ssa.FieldAddr:
			return fieldOfAddr(base).Name() + "." + f.Name()
		case *ssa.Parameter:
			if fieldOwner(p, f) == "allocArea" {
				if site == nil {
					return ""
				}
				pi := paramIndex(base.Parent(), base)
				if pi < 0 || pi >= len(site.Common().Args) {
					return ""
				}
				if afa, ok := site.Common().Args[pi].(*ssa.FieldAddr); ok {
					return fieldOfAddr(afa).Name() + "." + f.Name()
				}
				return ""
			}
		}
		return fieldOwner(p, f) + "." + f.Name()
	}
	slice := func(v ssa.Value, ctx *sliceCtx, within map[*ssa.Function]bool) map[*types.Var]bool {
		s := &slicer{p: p, fields: map[*types.Var]bool{}, seen: map[sliceKey]bool{}, within: within, dataOnly: true}
		s.walk(v, 0, ctx, 0)
		return s.fields
	}
	// stores defining the allocCommitState fields (anywhere in package txfile)
	csStores := map[*types.Var][]*ssa.Store{}
	for _, fn := range p.SrcFuncs() {
		if fnPkgPath(fn) != modPath {
			continue
		}
		for _, b := range fn.Blocks {
			for _, ins := range b.Instrs {
				if st, ok := ins.(*ssa.Store); ok {
					if f := addrField(st.Addr); f != nil && isCS[f] {
						csStores[f] = append(csStores[f], st)
					}
				}
			}
		}
	}
	// base dependencies: expand allocCommitState fields, keep allocator-side state only
	expand := func(in map[*types.Var]bool) map[string]bool {
		out := map[string]bool{}
		done := map[*types.Var]bool{}
		work := []*types.Var{}
		for f := range in {
			work = append(work, f)
		}
		for len(work) > 0 {
			f := work[len(work)-1]
			work = work[:len(work)-1]
			if done[f] {
				continue
			}
			done[f] = true
			if isCS[f] {
				for _, st := range csStores[f] {
					for g := range slice(st.Val, nil, nil) {
						work = append(work, g)
					}
				}
				continue
			}
			switch fieldOwner(p, f) {
			case "allocator", "allocArea", "freelist", "txAllocState", "txAllocArea", "txAreaManageState":
				out[fieldOwner(p, f)+"."+f.Name()] = true
			}
		}
		return out
	}
	// 1. loader pairing: memory location <- header field
	pair := map[string]*types.Var{}
	for fn := range staticReach(p, loader) {
		for _, b := range fn.Blocks {
			for _, ins := range b.Instrs {
				st, ok := ins.(*ssa.Store)
				if !ok {
					continue
				}
				loc := locOf(st.Addr, nil)
				if loc == "" {
					continue
				}
				var hs []*types.Var
				for f := range slice(st.Val, nil, nil) {
					if isHdr[f] {
						hs = append(hs, f)
					}
				}
				if len(hs) == 1 {
					pair[loc] = hs[0]
				}
			}
		}
	}
	// 2. persisted values
	persisted := map[*types.Var]map[string]bool{}
	ppos := map[*types.Var]string{}
	cmReach := staticReach(p, commitMeta)
	for fn := range cmReach {
		for _, b := range fn.Blocks {
			for _, ins := range b.Instrs {
				c, ok := ins.(ssa.CallInstruction)
				if !ok || len(c.Common().Args) < 2 {
					continue
				}
				sc := c.Common().StaticCallee()
				if sc == nil || sc.Name() != "Set" {
					continue
				}
				fa, ok := c.Common().Args[0].(*ssa.FieldAddr)
				if !ok || !isHdr[fieldOfAddr(fa)] {
					continue
				}
				h := fieldOfAddr(fa)
				persisted[h] = expand(slice(c.Common().Args[1], nil, cmReach))
				ppos[h] = p.InstrPos(ins)
			}
		}
	}
	// 3. in-memory values assigned by the switch
	memory := map[string]map[string]bool{}
	cReach := staticReach(p, commit)
	addMem := func(loc string, deps map[string]bool) {
		if memory[loc] == nil {
			memory[loc] = map[string]bool{}
		}
		for k := range deps {
			memory[loc][k] = true
		}
	}
	for fn := range cReach {
		for _, b := range fn.Blocks {
			for _, ins := range b.Instrs {
				st, ok := ins.(*ssa.Store)
				if !ok {
					continue
				}
				if loc := locOf(st.Addr, nil); loc != "" {
					addMem(loc, expand(slice(st.Val, nil, cReach)))
					continue
				}
				// store through the receiver of a helper (allocArea.commit): one location per call site
				for _, site := range p.callIndex().sites[fn] {
					if !cReach[site.Parent()] {
						continue
					}
					if loc := locOf(st.Addr, site); loc != "" {
						addMem(loc, expand(slice(st.Val, &sliceCtx{call: site}, cReach)))
					}
				}
			}
		}
	}
	var locs []string
	for loc := range pair {
		locs = append(locs, loc)
	}
	sort.Strings(locs)
	n := 0
	for _, loc := range locs {
		h := pair[loc]
		pd, okP := persisted[h]
		md, okM := memory[loc]
		if !okP || !okM {
			continue // not part of the commit-time pair (e.g. set at creation only); PERSIST-AGREE / RELOAD-AGREE cover presence
		}
		n++
		key := "metaPage." + h.Name() + "~" + loc
		var onlyP, onlyM []string
		for k := range pd {
			if !md[k] {
				onlyP = append(onlyP, k)
			}
		}
		for k := range md {
			if !pd[k] {
				onlyM = append(onlyM, k)
			}
		}
		sort.Strings(onlyP)
		sort.Strings(onlyM)
		if len(onlyP) == 0 && len(onlyM) == 0 {
			rep.OK("PERSIST-MEMORY-AGREE", key, ppos[h], fmt.Sprintf("both depend on %d state field(s)", len(pd)))
		} else {
			rep.Bad("PERSIST-MEMORY-AGREE", key, ppos[h], fmt.Sprintf("the value persisted in header field %s and the value the in-memory switch assigns to %s are computed from different state: only the persisted value depends on %v, only the in-memory value on %v — after a reopen the allocator starts from a different %s than the instance that was never closed", h.Name(), loc, onlyP, onlyM, loc))
		}
	}
	if n == 0 {
		rep.Unknown("PERSIST-MEMORY-AGREE", "anchor", "", "no header field / in-memory field pair found (anchor lost)")
	}
}

// ---- TRIM-SOURCE (C04, C07) ----

// ruleTRIMSOURCE: undoing a transaction restores the area's end marker and must drop EVERY free region at or
// above the restored marker (pages allocated from beyond the old marker and freed again inside the
// transaction sit there).  The correct result is a function of the freelist and the RESTORED marker alone;
// a trim whose result also depends on the marker the transaction had advanced to keeps or drops regions
// according to where the transaction stopped growing — regions below the advanced marker but not adjacent
// to it survive, and the same page id is handed out twice later.
func ruleTRIMSOURCE(p *Program, rep *Report) {
	rep.Rule("TRIM-SOURCE", 1, "in the rollback of an allocation area the new contents of freelist.regions (the trimmed list) depend on the restored end marker (txAllocArea.endMarker) and do not depend on the area's current, advanced end marker (allocArea.endMarker): backward slice incl. control dependence, with store-to-load forwarding")
	v := newAllocVocab(p)
	root := p.Method("txfile", "allocArea", "rollback")
	n := 0
	for _, fn := range sortedFns(staticReach(p, root)) {
		if strings.HasPrefix(funcName(fn), "(*txfile.freelist)") || strings.HasPrefix(funcName(fn), "(*txfile.regionList)") || strings.HasPrefix(funcName(fn), "(txfile.regionList)") {
			continue
		}
		for _, b := range fn.Blocks {
			for _, ins := range b.Instrs {
				st, ok := storesToField(ins, v.fRegions)
				if !ok {
					continue
				}
				n++
				rep.Analysed(funcName(fn))
				key := funcName(fn) + "|freelist.regions="
				s := &slicer{p: p, fields: map[*types.Var]bool{}, seen: map[sliceKey]bool{}, forward: true, within: staticReach(p, root)}
				s.walk(st.Val, 0, nil, 0)
				switch {
				case s.fields[v.fEndMarker]:
					rep.Bad("TRIM-SOURCE", key, p.InstrPos(ins), "the free regions kept by the rollback depend on allocArea.endMarker, the marker the aborted transaction had advanced to: which regions at or above the restored marker are dropped then depends on where the transaction stopped growing (e.g. only a run adjacent to the advanced marker is removed) — a freed page between the restored and the advanced marker stays in the freelist and is handed out a second time when the file grows again")
				case !s.fields[v.fTxEndMarker]:
					rep.Bad("TRIM-SOURCE", key, p.InstrPos(ins), "the free regions kept by the rollback do not depend on the restored end marker (txAllocArea.endMarker): regions above it are not trimmed")
				default:
					rep.OK("TRIM-SOURCE", key, p.InstrPos(ins), "trim decided by the freelist and the restored marker only")
				}
			}
		}
	}
	if n == 0 {
		rep.Unknown("TRIM-SOURCE", "anchor", "", "allocArea.rollback does not rewrite freelist.regions (anchor lost; INV-FL decides whether a trim exists)")
	}
}

// ---- FLAG-MONOTONE (C01, C03, C15) ----

// ruleFLAGMONOTONE: the per-page state flags dirty / flushed / freed only ever go from false to true inside a
// transaction; other code relies on that: the WAL checkpoint skips exactly the pages with dirty set (a page
// this transaction wrote must not be overwritten by the copy of its old overwrite page), canWrite refuses
// flushed pages (their buffer is owned by the background writer) and freed pages.
func ruleFLAGMONOTONE(p *Program, rep *Report) {
	rep.Rule("FLAG-MONOTONE", 2, "every store to Page.flags.dirty / flushed / freed outside the construction of a fresh Page stores the constant true (or the old value or-ed with something): the flags are monotone within a transaction, which the WAL checkpoint (skips dirty pages), canWrite (refuses flushed/freed pages) and the flush (writes dirty pages once) rely on")
	pf := p.Struct("txfile", "pageFlags")
	mono := map[*types.Var]bool{}
	for i := 0; i < pf.NumFields(); i++ {
		switch pf.Field(i).Name() {
		case "dirty", "flushed", "freed":
			mono[pf.Field(i)] = true
		}
	}
	if len(mono) != 3 {
		panic(vocabMiss{"txfile.pageFlags.{dirty,flushed,freed}"})
	}
	var rootOf func(v ssa.Value) ssa.Value
	rootOf = func(v ssa.Value) ssa.Value {
		if fa, ok := v.(*ssa.FieldAddr); ok {
			return rootOf(fa.X)
		}
		return v
	}
	n := 0
	for _, fn := range p.SrcFuncs() {
		if fnPkgPath(fn) != modPath {
			continue
		}
		for _, b := range fn.Blocks {
			for _, ins := range b.Instrs {
				st, ok := ins.(*ssa.Store)
				if !ok {
					continue
				}
				fa, ok := st.Addr.(*ssa.FieldAddr)
				if !ok || !mono[fieldOfAddr(fa)] {
					continue
				}
				n++
				rep.Analysed(funcName(fn))
				f := fieldOfAddr(fa)
				key := funcName(fn) + "|flags." + f.Name()
				if _, fresh := rootOf(fa).(*ssa.Alloc); fresh {
					rep.OK("FLAG-MONOTONE", key+"|init", p.InstrPos(ins), "initialisation of a fresh Page")
					continue
				}
				if bv, isC := constBoolOf(st.Val); isC && bv {
					rep.OK("FLAG-MONOTONE", key, p.InstrPos(ins), "set")
					continue
				}
				// old || x
				okOr := false
				if ph, isPhi := st.Val.(*ssa.Phi); isPhi {
					okOr = true
					for _, e := range ph.Edges {
						if bv, isC := constBoolOf(e); isC && bv {
							continue
						}
						if u, isU := e.(*ssa.UnOp); isU && sameAddr(u.X, st.Addr) {
							continue
						}
						okOr = false
					}
				}
				if okOr {
					rep.OK("FLAG-MONOTONE", key, p.InstrPos(ins), "old value or-ed")
					continue
				}
				rep.Bad("FLAG-MONOTONE", key, p.InstrPos(ins), "Page.flags."+f.Name()+" can be cleared inside a transaction: the flag is relied on as monotone — with dirty cleared after a flush the WAL checkpoint no longer skips the page and copies its OLD overwrite page over the contents just written (the commit then exposes an older state of that page); with flushed/freed cleared a buffer owned by the background writer can be modified, or a freed page written")
			}
		}
	}
	if n == 0 {
		rep.Unknown("FLAG-MONOTONE", "anchor", "", "no store to Page.flags.dirty/flushed/freed found (anchor lost)")
	}
}

// ---- C05: structural clauses of event framing ----

// dataSliceHas: the backward data slice of v contains the SSA value target / the struct field f.
func dataSliceHas(p *Program, v ssa.Value, target ssa.Value, f *types.Var, within map[*ssa.Function]bool) bool {
	s := &slicer{p: p, fields: map[*types.Var]bool{}, seen: map[sliceKey]bool{}, dataOnly: true, within: within}
	s.walk(v, 0, nil, 0)
	if f != nil && s.fields[f] {
		return true
	}
	if target != nil {
		for k := range s.seen {
			if k.v == target {
				return true
			}
		}
	}
	return false
}

// ruleEVENTSIZESOURCE (C05): the size header of an event is the number of payload bytes appended for it.
// (a) Writer.Next stores into eventHeader.sz a value computed from writeState.eventBytes;
// (b) wherever payload is appended to the buffer (buffer.Append(p)) every path from there to a return adds the
//     length of that same p to writeState.eventBytes.
// If either pairing breaks, the reader frames the stream wrongly: events come back truncated, merged or
// shifted for every chunking the producer uses.
func ruleEVENTSIZESOURCE(p *Program, rep *Report) {
	rep.Rule("EVENT-SIZE-SOURCE", 2, "the event size header written by Writer.Next is computed from writeState.eventBytes, and every buffer.Append(p) is followed on every path by an update of eventBytes that depends on that same p (every appended byte is counted in the event's size)")
	next := p.Method("pq", "Writer", "Next")
	szF := p.FieldVar("pq", "eventHeader", "sz")
	evB := p.FieldVar("pq", "writeState", "eventBytes")
	appendFn := p.Method("pq", "buffer", "Append")
	rep.Analysed(funcName(next))
	// (a)
	n := 0
	for fn := range staticReach(p, next) {
		if fnPkgPath(fn) != modPath+"/pq" {
			continue
		}
		for _, b := range fn.Blocks {
			for _, ins := range b.Instrs {
				c, ok := ins.(ssa.CallInstruction)
				if !ok || len(c.Common().Args) < 2 {
					continue
				}
				sc := c.Common().StaticCallee()
				if sc == nil || sc.Name() != "Set" {
					continue
				}
				fa, ok := c.Common().Args[0].(*ssa.FieldAddr)
				if !ok || fieldOfAddr(fa) != szF {
					continue
				}
				n++
				key := funcName(fn) + "|eventHeader.sz"
				if dataSliceHas(p, c.Common().Args[1], nil, evB, staticReach(p, next)) {
					rep.OK("EVENT-SIZE-SOURCE", key, p.InstrPos(ins), "size header computed from writeState.eventBytes")
				} else {
					rep.Bad("EVENT-SIZE-SOURCE", key, p.InstrPos(ins), "the size stored in the event header does not depend on writeState.eventBytes, the count of payload bytes appended for this event: the reader frames the event with a wrong length")
				}
			}
		}
	}
	if n == 0 {
		rep.Unknown("EVENT-SIZE-SOURCE", "Writer.Next|eventHeader.sz", p.Pos(next.Pos()), "no store of the event size header below Writer.Next (anchor lost)")
	}
	// (b)
	m := 0
	for _, fn := range p.SrcFuncs() {
		if fnPkgPath(fn) != modPath+"/pq" || fn == appendFn {
			continue
		}
		for _, b := range fn.Blocks {
			for i, ins := range b.Instrs {
				c, ok := ins.(ssa.CallInstruction)
				if !ok || c.Common().StaticCallee() != appendFn || len(c.Common().Args) < 2 {
					continue
				}
				m++
				rep.Analysed(funcName(fn))
				key := funcName(fn) + "|Append~eventBytes"
				payload := c.Common().Args[1]
				// blocks holding a store to eventBytes that depends on the payload
				counted := map[*ssa.BasicBlock]bool{}
				sameBlockAfter := false
				for _, b2 := range fn.Blocks {
					for j, ins2 := range b2.Instrs {
						st, ok := storesToField(ins2, evB)
						if !ok {
							continue
						}
						dep := false
						s := &slicer{p: p, fields: map[*types.Var]bool{}, seen: map[sliceKey]bool{}, dataOnly: true}
						s.walk(st.Val, 0, nil, 0)
						for k := range s.seen {
							if k.v == payload || (stripConv(k.v) == stripConv(payload)) {
								dep = true
							}
						}
						if !dep {
							continue
						}
						if b2 == b && j > i {
							sameBlockAfter = true
						}
						counted[b2] = true
					}
				}
				ok2 := sameBlockAfter
				if !ok2 && len(counted) > 0 {
					ok2 = true
					for blk := range reachableAvoiding(b, counted, nil) {
						if blk == b {
							continue
						}
						if _, isRet := blk.Instrs[len(blk.Instrs)-1].(*ssa.Return); isRet {
							ok2 = false
						}
					}
					if _, isRet := b.Instrs[len(b.Instrs)-1].(*ssa.Return); isRet && !counted[b] {
						ok2 = false
					}
				}
				// once the payload is in the buffer the call must not report failure: a caller that is told
				// "0 bytes written, error" retries the same Write and the payload is in the event twice
				failAfter := ""
				for blk := range reachableAvoiding(b, nil, nil) {
					if r, isRet := blk.Instrs[len(blk.Instrs)-1].(*ssa.Return); isRet && !returnsNilError(r) && len(r.Results) > 0 && errorLike(r.Results[len(r.Results)-1].Type()) {
						if blk != b || true {
							failAfter = p.InstrPos(r)
						}
					}
				}
				if failAfter != "" {
					rep.Bad("EVENT-SIZE-SOURCE", funcName(fn)+"|Append-then-error", p.InstrPos(ins), "after the payload has been appended to the write buffer "+funcName(fn)+" can still return an error (at "+failAfter+"): the caller is told the write failed and retries it after space was freed — the payload is then in the event twice (wrong size, corrupted event)")
				} else {
					rep.OK("EVENT-SIZE-SOURCE", funcName(fn)+"|Append-then-error", p.InstrPos(ins), "no error return is reachable once the payload is appended")
				}
				if ok2 {
					rep.OK("EVENT-SIZE-SOURCE", key, p.InstrPos(ins), "appended payload counted in eventBytes on every path")
				} else {
					rep.Bad("EVENT-SIZE-SOURCE", key, p.InstrPos(ins), "payload is appended to the write buffer but on some path to a return writeState.eventBytes is not increased by the length of that payload: the event's size header will be smaller than its contents and the reader delivers a truncated event and mis-parses what follows")
				}
			}
		}
	}
	if m == 0 {
		rep.Unknown("EVENT-SIZE-SOURCE", "Writer|Append", "", "no call of buffer.Append found in package pq (anchor lost)")
	}
}

// ruleREADCONSUME (C05): what the cursor reports as consumed is what the reader takes off the remaining size of
// the current event and off the caller's buffer.  All bookkeeping of one step derives from the same value.
func ruleREADCONSUME(p *Program, rep *Report) {
	rep.Rule("READ-CONSUME", 1, "in the reader's copy loop the byte count returned by txCursor.Read is, before the next call of Read or any return, subtracted from readState.eventBytes (remaining bytes of the event): the remaining size and the cursor position stay in step, so an event is neither over-read into the next one nor cut short")
	read := p.Method("pq", "txCursor", "Read")
	evB := p.FieldVar("pq", "readState", "eventBytes")
	n := 0
	for _, fn := range p.SrcFuncs() {
		if fnPkgPath(fn) != modPath+"/pq" || fn == read {
			continue
		}
		for _, b := range fn.Blocks {
			for i, ins := range b.Instrs {
				c, ok := ins.(*ssa.Call)
				if !ok || c.Common().StaticCallee() != read {
					continue
				}
				n++
				rep.Analysed(funcName(fn))
				key := funcName(fn) + "|consumed~eventBytes"
				var consumed ssa.Value
				if c.Referrers() != nil {
					for _, r := range *c.Referrers() {
						if ex, ok := r.(*ssa.Extract); ok && ex.Index == 0 {
							consumed = ex
						}
					}
				}
				if consumed == nil {
					rep.Bad("READ-CONSUME", key, p.InstrPos(ins), "the byte count returned by txCursor.Read is dropped")
					continue
				}
				counted := map[*ssa.BasicBlock]bool{}
				sameBlockAfter := false
				for _, b2 := range fn.Blocks {
					for j, ins2 := range b2.Instrs {
						st, ok := storesToField(ins2, evB)
						if !ok {
							continue
						}
						// same-iteration dependence: not through the loop-carried φ of the request size
						sl := &slicer{p: p, fields: map[*types.Var]bool{}, seen: map[sliceKey]bool{}, dataOnly: true, noPhi: true}
						sl.walk(st.Val, 0, nil, 0)
						dep := false
						for k := range sl.seen {
							if k.v == consumed {
								dep = true
							}
						}
						if !dep {
							continue
						}
						if b2 == b && j > i {
							sameBlockAfter = true
						}
						counted[b2] = true
					}
				}
				ok2 := sameBlockAfter
				if !ok2 && len(counted) > 0 {
					ok2 = true
					reach := reachableAvoiding(b, counted, nil)
					for blk := range reach {
						if blk == b {
							continue
						}
						if _, isRet := blk.Instrs[len(blk.Instrs)-1].(*ssa.Return); isRet {
							ok2 = false
						}
					}
					// back to the call without counting
					for _, s := range b.Succs {
						if !counted[s] && (s == b || reachableAvoiding(s, counted, nil)[b]) {
							ok2 = false
						}
					}
				}
				if ok2 {
					rep.OK("READ-CONSUME", key, p.InstrPos(ins), "consumed bytes are taken off the remaining event size before the next step")
				} else {
					rep.Bad("READ-CONSUME", key, p.InstrPos(ins), "the bytes consumed by txCursor.Read are not (on every path) subtracted from readState.eventBytes before the next Read or return: the reader's remaining-size and its cursor drift apart — the event is over-read into the next event's header or ends early")
				}
			}
		}
	}
	if n == 0 {
		rep.Unknown("READ-CONSUME", "anchor", "", "no call of txCursor.Read found in package pq (anchor lost)")
	}
}

// ---- IO-OWNER (C01, C03): who may write / sync the data file ----

// ruleIOOWNER: every byte that reaches the data file of an open File goes through the background writer's
// queue — that is what gives writes and sync barriers a single total order (data → sync → header → sync), the
// sticky error and the completion hand-off.  So WriteAt and Sync on the file may only be executed below
// writer.Run, or below initNewFile (creation, before a File object exists).  A "fast path" that writes or
// syncs the file directly from a transaction bypasses the barrier order.
func ruleIOOWNER(p *Program, rep *Report) {
	rep.Rule("IO-OWNER", 3, "every WriteAt (io.WriterAt / vfs.File) and every vfs.File.Sync in package txfile is executed in a function that is only ever reached below (*writer).Run or below initNewFile: nothing writes or syncs the data file of an open File except the background writer")
	roots := map[string]bool{"(*txfile.writer).Run": true, "txfile.initNewFile": true}
	var below func(fn *ssa.Function, seen map[*ssa.Function]bool) bool
	below = func(fn *ssa.Function, seen map[*ssa.Function]bool) bool {
		if fn == nil {
			return false
		}
		if roots[funcName(fn)] {
			return true
		}
		if seen[fn] {
			return true
		}
		seen[fn] = true
		if fn.Parent() != nil {
			return below(fn.Parent(), seen)
		}
		ci := p.callIndex()
		if exportedAPI(fn) || ci.escapes[fn] || len(ci.sites[fn]) == 0 {
			return false
		}
		for _, s := range ci.sites[fn] {
			if !below(s.Parent(), seen) {
				return false
			}
		}
		return true
	}
	for r := range roots {
		found := false
		for _, fn := range p.SrcFuncs() {
			if funcName(fn) == r {
				found = true
			}
		}
		if !found {
			panic(vocabMiss{r})
		}
	}
	n := 0
	for _, fn := range p.SrcFuncs() {
		if fnPkgPath(fn) != modPath {
			continue
		}
		for _, b := range fn.Blocks {
			for _, ins := range b.Instrs {
				c, ok := ins.(ssa.CallInstruction)
				if !ok || !c.Common().IsInvoke() {
					continue
				}
				m := c.Common().Method.Name()
				rt := c.Common().Value.Type()
				// by method signature, whatever the static interface type (vfs.File, io.WriterAt, txfile.writable)
				sig, _ := c.Common().Method.Type().(*types.Signature)
				isIO := false
				switch {
				case sig == nil:
				case m == "WriteAt" && sig.Params().Len() == 2:
					isIO = true
				case m == "Sync" && sig.Params().Len() == 1 && isNamed(sig.Params().At(0).Type(), modPath+"/internal/vfs", "SyncFlag"):
					isIO = true
				}
				_ = rt
				if !isIO {
					continue
				}
				n++
				rep.Analysed(funcName(fn))
				key := funcName(fn) + "|" + m
				if below(fn, map[*ssa.Function]bool{}) {
					rep.OK("IO-OWNER", key, p.InstrPos(ins), "only reached below writer.Run / initNewFile")
				} else {
					rep.Bad("IO-OWNER", key, p.InstrPos(ins), m+" on the data file in "+funcName(fn)+", which is reachable outside the background writer (writer.Run) and outside file creation: the write/sync bypasses the writer's queue, so it is not ordered with the scheduled page writes and sync barriers of a commit, ignores the sticky error and is not waited for")
				}
			}
		}
	}
	if n == 0 {
		rep.Unknown("IO-OWNER", "anchor", "", "no WriteAt / Sync on the data file found in package txfile (anchor lost)")
	}
}

// ---- DELEGATE-ROLES (C13) ----

// ruleDELEGATEROLES: the reader and the planning phase of an ACK run inside Delegate.BeginRead transactions
// while the producer flushes; that only works because BeginRead hands out READ-ONLY transactions (any number
// of them run beside the one writer).  A BeginRead that returns a write transaction serialises producer and
// consumer on the writer lock — and an ACK (read tx, then cleanup tx) blocks on itself.
func ruleDELEGATEROLES(p *Program, rep *Report) {
	rep.Rule("DELEGATE-ROLES", 1, "standaloneDelegate.BeginRead returns a transaction obtained from File.BeginReadonly (or BeginWith with the constant option Readonly: true)")
	fn := p.Method("pq", "standaloneDelegate", "BeginRead")
	beginRO := p.Method("txfile", "File", "BeginReadonly")
	beginWith := p.Method("txfile", "File", "BeginWith")
	ro := p.FieldVar("txfile", "TxOptions", "Readonly")
	rep.Analysed(funcName(fn))
	ok, n := true, 0
	for f := range staticReach(p, fn) {
		if fnPkgPath(f) != modPath+"/pq" {
			continue
		}
		for _, b := range f.Blocks {
			for _, ins := range b.Instrs {
				c, isCall := ins.(ssa.CallInstruction)
				if !isCall {
					continue
				}
				switch c.Common().StaticCallee() {
				case beginRO:
					n++
				case beginWith:
					n++
					isRO := false
					for _, b2 := range f.Blocks {
						for _, i2 := range b2.Instrs {
							if st, isSt := i2.(*ssa.Store); isSt && addrField(st.Addr) == ro {
								if bv, isC := constBoolOf(st.Val); isC && bv {
									isRO = true
								}
							}
						}
					}
					if !isRO {
						ok = false
					}
				default:
					if sc := c.Common().StaticCallee(); sc != nil && fnPkgPath(sc) == modPath && strings.HasPrefix(sc.Name(), "Begin") {
						ok = false
						n++
					}
				}
			}
		}
	}
	switch {
	case n == 0:
		rep.Unknown("DELEGATE-ROLES", "standaloneDelegate.BeginRead", p.Pos(fn.Pos()), "BeginRead starts no transaction (anchor lost)")
	case ok:
		rep.OK("DELEGATE-ROLES", "standaloneDelegate.BeginRead", p.Pos(fn.Pos()), "read-only transaction")
	default:
		rep.Bad("DELEGATE-ROLES", "standaloneDelegate.BeginRead", p.Pos(fn.Pos()), "Delegate.BeginRead can return a write transaction: reader, ACK planning and producer then serialise on the single writer lock (an ACK's cleanup transaction waits for its own planning transaction; producer and consumer block each other)")
	}
}

// ---- round 5 ----

// rulePEREVENTSTATE (C05, C12): writeState.eventBytes (bytes of the event being written) and eventID are state
// of the UNFINISHED event.  A flush can run in the middle of an event (explicit Flush, or a Write that finds
// the buffer full), so nothing but the event boundary (Writer.Next), the payload accounting (+= len(p)) and
// the constructor may change them — in particular not a "reset the statistics" step of the flush that
// rebuilds the whole writeState.
func rulePEREVENTSTATE(p *Program, rep *Report) {
	rep.Rule("PER-EVENT-STATE", 2, "writeState.eventBytes / eventID are only written by the event boundary (Writer.Next), by an increment of their own old value, or while a new Writer is constructed; a store of the whole writeState outside the constructor carries both fields over unchanged — a flush in the middle of a streamed event must not touch the state of the unfinished event")
	ws := p.Named("pq", "writeState")
	next := p.Method("pq", "Writer", "Next")
	ctor := p.Func("pq", "newWriter")
	nextReach := staticReach(p, next)
	ctorReach := staticReach(p, ctor)
	n := 0
	for _, fname := range []string{"eventBytes", "eventID"} {
		f := p.FieldVar("pq", "writeState", fname)
		isOld := func(v ssa.Value) bool {
			u, ok := stripConv(v).(*ssa.UnOp)
			if !ok || u.Op != token.MUL {
				return false
			}
			fa, ok := u.X.(*ssa.FieldAddr)
			return ok && fieldOfAddr(fa) == f
		}
		for _, fn := range p.SrcFuncs() {
			if fnPkgPath(fn) != modPath+"/pq" {
				continue
			}
			for _, b := range fn.Blocks {
				for _, ins := range b.Instrs {
					st, ok := ins.(*ssa.Store)
					if !ok {
						continue
					}
					key := funcName(fn) + "|" + fname
					// (1) direct store to the field
					if fa, isFA := st.Addr.(*ssa.FieldAddr); isFA && fieldOfAddr(fa) == f {
						if _, lit := fa.X.(*ssa.Alloc); lit && namedOf(fa.X.Type()) != nil && namedOf(fa.X.Type()).Obj() == ws.Obj() {
							continue // field of a composite literal under construction: judged at the whole-struct store
						}
						n++
						rep.Analysed(funcName(fn))
						switch {
						case nextReach[fn] || ctorReach[fn]:
							rep.OK("PER-EVENT-STATE", key, p.InstrPos(ins), "event boundary / constructor")
						case derivesFrom(st.Val, isOld, 0, map[ssa.Value]bool{}):
							rep.OK("PER-EVENT-STATE", key, p.InstrPos(ins), "update of its own old value")
						default:
							rep.Bad("PER-EVENT-STATE", key, p.InstrPos(ins), "writeState."+fname+" is overwritten outside Writer.Next / the constructor with a value that does not derive from its old value: when this runs in the middle of a streamed event (flush between two Write calls) the event's size header / id no longer matches what was appended")
						}
						continue
					}
					// (2) store of a whole writeState
					pt, isPtr := st.Addr.Type().Underlying().(*types.Pointer)
					if !isPtr {
						continue
					}
					if nn, isN := pt.Elem().(*types.Named); !isN || nn.Obj() != ws.Obj() {
						continue
					}
					if _, tmp := st.Addr.(*ssa.Alloc); tmp {
						continue // initialisation of a local temporary
					}
					n++
					rep.Analysed(funcName(fn))
					key += "|whole-struct"
					if ctorReach[fn] {
						rep.OK("PER-EVENT-STATE", key, p.InstrPos(ins), "constructor")
						continue
					}
					keeps := false
					if u, isLoad := st.Val.(*ssa.UnOp); isLoad && u.Op == token.MUL {
						if a, isAlloc := u.X.(*ssa.Alloc); isAlloc {
							vals, found := structFieldValues(p, st.Val, fname, 0)
							_ = a
							if found {
								keeps = true
								for _, v := range vals {
									if !derivesFrom(v, isOld, 0, map[ssa.Value]bool{}) {
										keeps = false
									}
								}
							}
						}
					}
					if keeps {
						rep.OK("PER-EVENT-STATE", key, p.InstrPos(ins), "the new writeState carries "+fname+" over")
					} else {
						rep.Bad("PER-EVENT-STATE", key, p.InstrPos(ins), "the whole writeState is replaced and writeState."+fname+" is not carried over from its old value (a composite literal without the field zeroes it): after a flush in the middle of a streamed event the bytes already appended are no longer counted — the event's size header is too small, the reader truncates the event and mis-parses everything behind it")
					}
				}
			}
		}
	}
	if n == 0 {
		rep.Unknown("PER-EVENT-STATE", "anchor", "", "no store to writeState.eventBytes / eventID found (anchor lost)")
	}
}

// rulePAGEHEADERAGREE (C06, C05, C10): the writer keeps, per buffered page, the meta data it persists in the
// page header (page.UpdateHeader: header field <- pageMeta field).  When a writer is created on a non-empty
// queue the tail page is loaded back (pagePool.NewPageWith); every pageMeta field that UpdateHeader persists
// must be restored there from the same header field, otherwise the next flush of that page writes a header
// that contradicts its contents (e.g. first-event id 0 with a valid first-event offset) and the ACK/reader
// arithmetic that uses the header goes wrong after the next reopen.
func rulePAGEHEADERAGREE(p *Program, rep *Report) {
	rep.Rule("PAGE-HEADER-AGREE", 2, "for every (event page header field, pageMeta field) pair that page.UpdateHeader persists, the page loader pagePool.NewPageWith restores that pageMeta field from that header field (sibling agreement of writer and loader, by backward slices)")
	upd := p.Method("pq", "page", "UpdateHeader")
	load := p.Method("pq", "pagePool", "NewPageWith")
	hdr := p.Struct("pq", "eventPage")
	meta := p.Struct("pq", "pageMeta")
	isHdr, isMeta := map[*types.Var]bool{}, map[*types.Var]bool{}
	for i := 0; i < hdr.NumFields(); i++ {
		isHdr[hdr.Field(i)] = true
	}
	for i := 0; i < meta.NumFields(); i++ {
		isMeta[meta.Field(i)] = true
	}
	rep.Analysed(funcName(upd), funcName(load))
	type pair struct{ h, m *types.Var }
	var pairs []pair
	updReach := staticReach(p, upd)
	for fn := range updReach {
		for _, b := range fn.Blocks {
			for _, ins := range b.Instrs {
				c, ok := ins.(ssa.CallInstruction)
				if !ok || len(c.Common().Args) < 2 {
					continue
				}
				sc := c.Common().StaticCallee()
				if sc == nil || sc.Name() != "Set" {
					continue
				}
				fa, ok := c.Common().Args[0].(*ssa.FieldAddr)
				if !ok || !isHdr[fieldOfAddr(fa)] {
					continue
				}
				sl := &slicer{p: p, fields: map[*types.Var]bool{}, seen: map[sliceKey]bool{}, dataOnly: true, within: updReach}
				sl.walk(c.Common().Args[1], 0, nil, 0)
				for f := range sl.fields {
					if isMeta[f] {
						pairs = append(pairs, pair{fieldOfAddr(fa), f})
					}
				}
			}
		}
	}
	if len(pairs) == 0 {
		rep.Unknown("PAGE-HEADER-AGREE", "page.UpdateHeader", p.Pos(upd.Pos()), "UpdateHeader persists no pageMeta field (anchor lost)")
		return
	}
	sort.Slice(pairs, func(i, j int) bool { return pairs[i].h.Name() < pairs[j].h.Name() })
	loadReach := staticReach(p, load)
	for _, pr := range pairs {
		restored := false
		for fn := range loadReach {
			if fnPkgPath(fn) != modPath+"/pq" {
				continue
			}
			for _, b := range fn.Blocks {
				for _, ins := range b.Instrs {
					st, ok := ins.(*ssa.Store)
					if !ok || addrField(st.Addr) != pr.m {
						continue
					}
					sl := &slicer{p: p, fields: map[*types.Var]bool{}, seen: map[sliceKey]bool{}, dataOnly: true, within: loadReach}
					sl.walk(st.Val, 0, nil, 0)
					if sl.fields[pr.h] {
						restored = true
					}
				}
			}
		}
		key := "eventPage." + pr.h.Name() + "~pageMeta." + pr.m.Name()
		if restored {
			rep.OK("PAGE-HEADER-AGREE", key, p.Pos(load.Pos()), "persisted by UpdateHeader, restored by NewPageWith")
		} else {
			rep.Bad("PAGE-HEADER-AGREE", key, p.Pos(load.Pos()), "page.UpdateHeader persists pageMeta."+pr.m.Name()+" in header field "+pr.h.Name()+", but the loader pagePool.NewPageWith does not restore pageMeta."+pr.m.Name()+" from it: a writer created on a non-empty queue re-flushes its tail page with "+pr.h.Name()+" = 0 although the page holds events — the ACK then computes the new read position from a wrong header and un-ACKed events are skipped after the next reopen")
		}
	}
}

// ruleRELOADEVERYPATH (C10): readAllocatorState has an early success return for files without a free list;
// whatever the commit-time switch keeps in memory and the loader restores from the header must be restored
// on EVERY successful return of the loader, not only on the path that reads a free list.
func ruleRELOADEVERYPATH(p *Program, rep *Report) {
	rep.Rule("RELOAD-EVERY-PATH", 3, "every allocator field that readAllocatorState loads from a header field (metaPage.*) is stored on every path to a successful return of the loader — a state restored only on the path that also reads a free list is lost for files whose free list is empty")
	loader := p.Func("txfile", "readAllocatorState")
	hdr := p.Struct("txfile", "metaPage")
	isHdr := map[*types.Var]bool{}
	for i := 0; i < hdr.NumFields(); i++ {
		isHdr[hdr.Field(i)] = true
	}
	rep.Analysed(funcName(loader))
	type tgt struct {
		loc string
		h   *types.Var
	}
	blocks := map[tgt]map[*ssa.BasicBlock]bool{}
	for _, b := range loader.Blocks {
		for _, ins := range b.Instrs {
			st, ok := ins.(*ssa.Store)
			if !ok {
				continue
			}
			f := addrField(st.Addr)
			if f == nil {
				continue
			}
			o := fieldOwner(p, f)
			if o != "allocator" && o != "allocArea" {
				continue
			}
			sl := &slicer{p: p, fields: map[*types.Var]bool{}, seen: map[sliceKey]bool{}, dataOnly: true}
			sl.walk(st.Val, 0, nil, 0)
			var hs []*types.Var
			for g := range sl.fields {
				if isHdr[g] {
					hs = append(hs, g)
				}
			}
			if len(hs) != 1 {
				continue
			}
			loc := o + "." + f.Name()
			if fa, isFA := st.Addr.(*ssa.FieldAddr); isFA {
				if in, isIn := fa.X.(*ssa.FieldAddr); isIn {
					loc = fieldOfAddr(in).Name() + "." + f.Name()
				}
			}
			k := tgt{loc, hs[0]}
			if blocks[k] == nil {
				blocks[k] = map[*ssa.BasicBlock]bool{}
			}
			blocks[k][b] = true
		}
	}
	var keys []tgt
	for k := range blocks {
		keys = append(keys, k)
	}
	sort.Slice(keys, func(i, j int) bool { return keys[i].loc < keys[j].loc })
	if len(keys) == 0 {
		rep.Unknown("RELOAD-EVERY-PATH", "readAllocatorState", p.Pos(loader.Pos()), "the loader restores no allocator field from the header (anchor lost)")
		return
	}
	for _, k := range keys {
		reach := reachableAvoiding(loader.Blocks[0], blocks[k], nil)
		bad := ""
		for blk := range reach {
			if r, ok := blk.Instrs[len(blk.Instrs)-1].(*ssa.Return); ok && returnsNilError(r) {
				bad = p.InstrPos(r)
			}
		}
		key := "metaPage." + k.h.Name() + "->" + k.loc
		if bad == "" {
			rep.OK("RELOAD-EVERY-PATH", key, p.Pos(loader.Pos()), "restored on every successful return")
		} else {
			rep.Bad("RELOAD-EVERY-PATH", key, bad, k.loc+" is restored from header field "+k.h.Name()+" only on some paths of readAllocatorState: the successful return at "+bad+" is reached without it (e.g. the early return for a file without free list), so a reopened file starts with "+k.loc+" = 0 while the instance that was never closed — and the header — hold the real value")
		}
	}
}

// ruleTRUNCATEKEEPSPREVIOUS (C16, C01): the two headers describe the last two committed states; a damaged newest
// header makes Open fall back to the older one, whose pages must still be in the file.  The commit therefore
// may only truncate the file to a size that also covers the PREVIOUS state — the end markers snapshotted when
// the transaction began (txAllocArea.endMarker) —, never to what the new state alone needs: at the point of
// the truncate the allocator already holds the new markers (allocator.Commit ran).
func ruleTRUNCATEKEEPSPREVIOUS(p *Program, rep *Report) {
	rep.Rule("TRUNCATE-KEEPS-PREVIOUS", 1, "the size a commit truncates the file to (File.truncate below tryCommitChanges) depends on the end markers snapshotted at transaction begin (txAllocArea.endMarker = extent of the previously committed state): the state the older header describes stays in the file until one more commit has passed")
	root := p.Method("txfile", "Tx", "tryCommitChanges")
	fTruncate := p.Method("txfile", "File", "truncate")
	txEnd := p.FieldVar("txfile", "txAllocArea", "endMarker")
	reach := staticReach(p, root)
	n := 0
	for _, fn := range sortedFns(reach) {
		if fnPkgPath(fn) != modPath {
			continue
		}
		for _, b := range fn.Blocks {
			for _, ins := range b.Instrs {
				c, ok := ins.(ssa.CallInstruction)
				if !ok || c.Common().StaticCallee() != fTruncate || len(c.Common().Args) < 2 {
					continue
				}
				n++
				rep.Analysed(funcName(fn))
				key := funcName(fn) + "|File.truncate"
				sl := &slicer{p: p, fields: map[*types.Var]bool{}, seen: map[sliceKey]bool{}, within: reach}
				sl.walk(c.Common().Args[1], 0, nil, 0)
				if sl.fields[txEnd] {
					rep.OK("TRUNCATE-KEEPS-PREVIOUS", key, p.InstrPos(ins), "size depends on the end markers of the previous state")
				} else {
					rep.Bad("TRUNCATE-KEEPS-PREVIOUS", key, p.InstrPos(ins), "the commit truncates the file to a size that does not depend on the end markers snapshotted at transaction begin (txAllocArea.endMarker): the file is cut to what the NEW state needs in the very commit that released the tail pages — if the new header is then damaged, Open falls back to the older header whose pages are no longer in the file")
				}
			}
		}
	}
	if n == 0 {
		rep.Unknown("TRUNCATE-KEEPS-PREVIOUS", "anchor", "", "no File.truncate below tryCommitChanges (anchor lost)")
	}
}

// pqFieldOwner: name of the pq struct type declaring field f ("" if none).
func pqFieldOwner(p *Program, f *types.Var) string {
	if p.pqOwners == nil {
		p.pqOwners = map[*types.Var]string{}
		scope := p.PQ.Pkg.Scope()
		for _, name := range scope.Names() {
			tn, ok := scope.Lookup(name).(*types.TypeName)
			if !ok {
				continue
			}
			st, ok := tn.Type().Underlying().(*types.Struct)
			if !ok {
				continue
			}
			for i := 0; i < st.NumFields(); i++ {
				if _, dup := p.pqOwners[st.Field(i)]; !dup {
					p.pqOwners[st.Field(i)] = name
				}
			}
		}
	}
	return p.pqOwners[f]
}

// ruleREADSTARTAGREE (C17, C06): three places decide where the un-ACKed part of the queue starts — the reader
// when it initialises its cursor, Queue.Pending and the acker (queueRange): the persisted read position if
// there is one, else the head.  They have to decide it by the same criterion, or counters (Pending/Active)
// and what a reopened Reader delivers (Available, re-delivery of ACKed events) disagree.  Sibling agreement
// on the set of position / cursor / reader-state fields the selecting condition depends on.
func ruleREADSTARTAGREE(p *Program, rep *Report) {
	rep.Rule("READ-START-AGREE", 2, "every function of package pq that chooses between the persisted read position (queuePage.read) and the head (queuePage.head) decides by a condition over the same fields of the parsed position / cursor / reader state as its siblings (in this code base: whether the read position's page is set)")
	parse := p.Method("pq", "access", "ParsePosition")
	fRead := p.FieldVar("pq", "queuePage", "read")
	fHead := p.FieldVar("pq", "queuePage", "head")
	type sel struct {
		fn  *ssa.Function
		dom string
		pos string
	}
	var sels []sel
	for _, fn := range p.SrcFuncs() {
		if fnPkgPath(fn) != modPath+"/pq" {
			continue
		}
		var readCall ssa.Value
		hasHead := false
		for _, b := range fn.Blocks {
			for _, ins := range b.Instrs {
				c, ok := ins.(*ssa.Call)
				if !ok || c.Common().StaticCallee() != parse || len(c.Common().Args) < 2 {
					continue
				}
				fa, ok := c.Common().Args[1].(*ssa.FieldAddr)
				if !ok {
					continue
				}
				switch fieldOfAddr(fa) {
				case fRead:
					readCall = c
				case fHead:
					hasHead = true
				}
			}
		}
		if readCall == nil || !hasHead {
			continue
		}
		dom := map[string]bool{}
		pos := ""
		for _, b := range fn.Blocks {
			iff, ok := b.Instrs[len(b.Instrs)-1].(*ssa.If)
			if !ok {
				continue
			}
			sl := &slicer{p: p, fields: map[*types.Var]bool{}, seen: map[sliceKey]bool{}, dataOnly: true}
			// stop at the ParsePosition call: its internals (the on-disk encoding) are the same for all siblings
			sl.seen[sliceKey{readCall, nil, 0}] = true
			sl.walk(iff.Cond, 0, nil, 0)
			uses := false
			for k := range sl.seen {
				if k.v == readCall && sl.steps > 0 {
					uses = true
				}
			}
			// the condition must actually reach the parsed read position
			reaches := false
			var chk func(v ssa.Value, d int) bool
			chk = func(v ssa.Value, d int) bool {
				if v == nil || d > 12 {
					return false
				}
				if v == readCall {
					return true
				}
				switch x := v.(type) {
				case *ssa.BinOp:
					return chk(x.X, d+1) || chk(x.Y, d+1)
				case *ssa.UnOp:
					return chk(x.X, d+1)
				case *ssa.Alloc:
					if x.Referrers() != nil {
						for _, r := range *x.Referrers() {
							if st, ok := r.(*ssa.Store); ok && st.Addr == ssa.Value(x) && chk(st.Val, d+1) {
								return true
							}
						}
					}
					return false
				case *ssa.Extract:
					return chk(x.Tuple, d+1)
				case *ssa.Field:
					return chk(x.X, d+1)
				case *ssa.FieldAddr:
					return chk(x.X, d+1)
				case *ssa.Convert:
					return chk(x.X, d+1)
				case *ssa.Phi:
					for _, e := range x.Edges {
						if chk(e, d+1) {
							return true
						}
					}
				}
				return false
			}
			reaches = chk(iff.Cond, 0)
			_ = uses
			if !reaches {
				continue
			}
			pos = p.InstrPos(iff)
			for f := range sl.fields {
				switch pqFieldOwner(p, f) {
				case "position", "cursor", "txCursor", "readState", "buffer", "writeState":
					dom[pqFieldOwner(p, f)+"."+f.Name()] = true
				}
			}
		}
		var ds []string
		for d := range dom {
			ds = append(ds, d)
		}
		sort.Strings(ds)
		sels = append(sels, sel{fn, strings.Join(ds, ","), pos})
	}
	if len(sels) < 2 {
		rep.Unknown("READ-START-AGREE", "anchor", "", fmt.Sprintf("%d function(s) choose between queuePage.read and queuePage.head (at least two siblings expected: anchor lost)", len(sels)))
		return
	}
	count := map[string]int{}
	for _, s := range sels {
		count[s.dom]++
	}
	major, best := "", 0
	for d, c := range count {
		if c > best || (c == best && d < major) {
			major, best = d, c
		}
	}
	sort.Slice(sels, func(i, j int) bool { return funcName(sels[i].fn) < funcName(sels[j].fn) })
	for _, s := range sels {
		rep.Analysed(funcName(s.fn))
		key := funcName(s.fn) + "|read-or-head"
		if s.dom == major {
			rep.OK("READ-START-AGREE", key, s.pos, "decided by {"+s.dom+"}")
		} else {
			rep.Bad("READ-START-AGREE", key, s.pos, "this function chooses between the persisted read position and the head by a condition over {"+s.dom+"}, its "+fmt.Sprint(best)+" sibling(s) by {"+major+"}: for some queue states they start from different events — the counters (Pending/Active) and what a (re)opened Reader delivers / reports as Available disagree, already ACKed events are delivered again")
		}
	}
}

// ---- FLOCK-ACQUIRE (C18): the function that takes the OS file lock keeps what it took ----

type flockAcq struct {
	kind string // "lock": held iff the returned error is nil; "try": held iff the returned bool is true
	sym  int
}

type flockProp struct {
	acq    []flockAcq
	stored bool
}

func (f *flockProp) Key() string {
	s := fmt.Sprintf("%v|", f.stored)
	for _, a := range f.acq {
		s += fmt.Sprintf("%s%d,", a.kind, a.sym)
	}
	return s
}
func (f *flockProp) Clone() PropState {
	return &flockProp{acq: append([]flockAcq(nil), f.acq...), stored: f.stored}
}

type flockPlugin struct {
	basePlugin
	n int
}

func (fp *flockPlugin) OnCall(in *Interp, fs *FState, site ssa.Instruction, callee *ssa.Function, fnv Value, args []Value) (bool, Value) {
	if callee == nil || callee.Pkg == nil || !strings.HasSuffix(callee.Pkg.Pkg.Path(), "/flock") {
		return false, nil
	}
	st := fs.st.prop.(*flockProp)
	switch callee.Name() {
	case "NewFlock", "New":
		return true, in.nonNil()
	case "Lock", "RLock":
		fp.n++
		r := in.top()
		st.acq = append(st.acq, flockAcq{"lock", r.(Top).sym})
		return true, r
	case "TryLock", "TryRLock":
		fp.n++
		r := in.top()
		if in.trackedBool == nil {
			in.trackedBool = map[int]bool{}
		}
		in.trackedBool[r.(Top).sym] = true
		st.acq = append(st.acq, flockAcq{"try", r.(Top).sym})
		return true, TupleV{[]Value{r, r}}
	case "Unlock", "Close":
		st.acq = nil
		return true, in.top()
	}
	return true, in.unknown(callee.Signature.Results())
}

func (fp *flockPlugin) OnStore(in *Interp, fs *FState, instr ssa.Instruction, c *Cell, v Value) {
	if c.key != "Flock" {
		return
	}
	if _, isNil := v.(NilV); isNil {
		return
	}
	fs.st.prop.(*flockProp).stored = true
}

func ruleFLOCKACQUIRE(p *Program, rep *Report) {
	rep.Rule("FLOCK-ACQUIRE", 1, "on every path of osfs.(*File).doLock: a return with a nil error has acquired the OS lock and stored the lock object in the File (so Unlock can release it); a return with an error does not hold an acquired lock that is stored nowhere (abstract interpretation, path-sensitive on the results of Lock / TryLock)")
	fn := p.Method("internal/vfs/osfs", "File", "doLock")
	pl := &flockPlugin{}
	in := newInterp(p, pl)
	var exits []Exit
	failed := ""
	func() {
		defer func() {
			if e := recover(); e != nil {
				failed = fmt.Sprintf("%v", e)
			}
		}()
		recv := PtrV{cell: in.singleton(p.Named("internal/vfs/osfs", "File"))}
		exits = in.Run(fn, recvArgs(in, fn, recv), newState(&flockProp{}))
		failed = in.failed
	}()
	rep.Analysed(in.enteredNames()...)
	pos := p.Pos(fn.Pos())
	if failed != "" || len(exits) == 0 {
		rep.Unknown("FLOCK-ACQUIRE", "osfs.File.doLock", pos, "analysis did not complete: "+failed)
		return
	}
	if pl.n == 0 {
		rep.Unknown("FLOCK-ACQUIRE", "osfs.File.doLock", pos, "doLock acquires no flock (anchor lost)")
		return
	}
	var problems []string
	okExits := 0
	for _, e := range exits {
		st := e.st.prop.(*flockProp)
		// held: some acquisition is known to have succeeded; notHeld: every acquisition is known to have failed
		// (or there was none).  Facts lost across a helper's joined results leave both false: not decided.
		held, notHeld := false, true
		for _, a := range st.acq {
			switch a.kind {
			case "lock":
				switch e.st.nilF[a.sym] {
				case 1:
					held = true
					notHeld = false
				case 0:
					notHeld = false
				}
			case "try":
				b, known := e.st.boolF[a.sym]
				if known && b {
					held = true
				}
				if !known || b {
					notHeld = false
				}
			}
		}
		if debugVerbose {
			fmt.Printf("flock exit err=%d held=%v notHeld=%v stored=%v acq=%v nilF=%v boolF=%v ret=%s\n", errOfExit(fn, e), held, notHeld, st.stored, st.acq, e.st.nilF, e.st.boolF, e.ret.vstr())
		}
		switch errOfExit(fn, e) {
		case 0, 2: // 0: the nil-ness of the returned error value is not known (a package-level error variable)
			if held && !st.stored {
				problems = append(problems, "doLock can return (an error) although it has just acquired the OS lock, and the lock object is stored nowhere: the caller believes locking failed, nobody can ever release the lock — the path stays locked until the process exits (a later Open of the same path fails or blocks forever)")
			}
		case 1:
			okExits++
			if notHeld || !st.stored {
				problems = append(problems, "doLock can return success without holding the OS lock / without storing the lock object in the File")
			}
		}
	}
	if okExits == 0 {
		problems = append(problems, "doLock has no successful exit")
	}
	sort.Strings(problems)
	problems = uniq(problems)
	if len(problems) == 0 {
		rep.OK("FLOCK-ACQUIRE", "osfs.File.doLock", pos, fmt.Sprintf("%d exit class(es): success holds and stores the lock, error exits hold nothing", len(exits)))
	} else {
		rep.Bad("FLOCK-ACQUIRE", "osfs.File.doLock|"+strings.Join(problems, "; "), pos, strings.Join(problems, "; "))
	}
}

// ---- DATA-END-SKIPS-OVERFLOW (C04, C14) ----

// ruleDATAENDSKIPSOVERFLOW: the overflow area is carved out at the meta end marker, beyond the data end marker;
// while the file is bounded the data area cannot reach it (capacity test against maxPages).  Once the limit is
// raised (Open with FlagUpdMaxSize) — or in an unbounded file — the pages in [data end, meta end) are in use
// by the meta area.  So wherever pages are taken from the unused end of the data area (allocFromArea on the
// data end marker), the relation of the two markers has to be taken into account first: the data end marker
// raised to the meta end marker (as the unbounded branch of tryGrow does) or a dominating comparison of the
// two.  Otherwise live overwrite / mapping / free-list pages are handed out as data pages.
const badMsgDataEnd = "pages are allocated from the unused end of the data area starting at the data end marker without regard to the meta end marker: when the overflow area is in use (meta end marker beyond the data end marker) and the size limit no longer separates the two — the maximum size was raised on open — live overwrite, mapping and free-list pages in [data end, meta end) are handed out as data pages and overwritten"

func ruleDATAENDSKIPSOVERFLOW(p *Program, rep *Report) {
	rep.Rule("DATA-END-SKIPS-OVERFLOW", 1, "every allocation from the unused end of the data area (allocFromArea on the data end marker) is preceded on every path by a raise of the data end marker to the meta end marker, or dominated by a comparison of the two markers: the pages between them belong to the overflow area in use")
	v := newAllocVocab(p)
	isMarkerLoadOf := func(x ssa.Value, area string) bool {
		u, ok := stripConv(x).(*ssa.UnOp)
		return ok && u.Op == token.MUL && areaOfMarkerAddr(u.X, v.fEndMarker) == area
	}
	n := 0
	for _, fn := range p.SrcFuncs() {
		if fnPkgPath(fn) != modPath {
			continue
		}
		for _, b := range fn.Blocks {
			for i, ins := range b.Instrs {
				c, ok := ins.(ssa.CallInstruction)
				if !ok || c.Common().StaticCallee() != v.allocFromArea || len(c.Common().Args) < 2 || areaOfMarkerAddr(c.Common().Args[1], v.fEndMarker) != "data" {
					continue
				}
				n++
				rep.Analysed(funcName(fn))
				// the obligation is keyed by the allocator operation(s) through which the advance is reached
				// (an unexported helper holding the advance is attributed to its callers), so that a finding
				// recorded for an operation stays attached to it when the advance moves into a helper
				var owners []string
				var climb func(f *ssa.Function, depth int)
				seenF := map[*ssa.Function]bool{}
				climb = func(f *ssa.Function, depth int) {
					if seenF[f] {
						return
					}
					seenF[f] = true
					for f.Parent() != nil {
						f = f.Parent()
					}
					sites := p.callIndex().sites[f]
					nm := f.Name()
					if depth >= 3 || len(sites) == 0 || (nm != "" && nm[0] >= 'A' && nm[0] <= 'Z') {
						owners = append(owners, funcName(f))
						return
					}
					for _, s := range sites {
						climb(s.Parent(), depth+1)
					}
				}
				climb(fn, 0)
				sort.Strings(owners)
				owners = uniq(owners)
				key := strings.Join(owners, "+") + "|data-end-advance"
				// (a) a raise  data.endMarker = <meta.endMarker>  on every path before the call (block-granular)
				raised := map[*ssa.BasicBlock]bool{}
				sameBlockBefore := false
				for _, b2 := range fn.Blocks {
					for j, in2 := range b2.Instrs {
						st, isSt := in2.(*ssa.Store)
						if !isSt || areaOfMarkerAddr(st.Addr, v.fEndMarker) != "data" {
							continue
						}
						if dataSliceHasMarker(p, st.Val, v.fEndMarker, "meta") {
							if b2 == b && j < i {
								sameBlockBefore = true
							}
							raised[b2] = true
						}
					}
				}
				// ... or a helper that performs the raise on every one of its return paths
				isRaiseStore := func(x ssa.Instruction) bool {
					st, isSt := x.(*ssa.Store)
					return isSt && areaOfMarkerAddr(st.Addr, v.fEndMarker) == "data" && dataSliceHasMarker(p, st.Val, v.fEndMarker, "meta")
				}
				for _, b2 := range fn.Blocks {
					for j, in2 := range b2.Instrs {
						c2, isCall := in2.(ssa.CallInstruction)
						if !isCall {
							continue
						}
						if _, isDefer := in2.(*ssa.Defer); isDefer {
							continue
						}
						h := c2.Common().StaticCallee()
						if h == nil || h == v.allocFromArea || fnPkgPath(h) != modPath || len(h.Blocks) == 0 {
							continue
						}
						// the helper raises on every path, or every path passes a comparison of the two markers
						// (the raise is only needed on one side of it)
						considers := func(x ssa.Instruction) bool {
							if isRaiseStore(x) {
								return true
							}
							iff, isIf := x.(*ssa.If)
							if !isIf {
								return false
							}
							bo, isBo := iff.Cond.(*ssa.BinOp)
							return isBo && ((isMarkerLoadOf(bo.X, "data") && isMarkerLoadOf(bo.Y, "meta")) || (isMarkerLoadOf(bo.X, "meta") && isMarkerLoadOf(bo.Y, "data")))
						}
						hasRaise := false
						for _, hb := range h.Blocks {
							for _, hi := range hb.Instrs {
								if isRaiseStore(hi) {
									hasRaise = true
								}
							}
						}
						if !hasRaise || !everyReturnPasses(p, h, considers, 0) {
							continue
						}
						if b2 == b && j < i {
							sameBlockBefore = true
						}
						raised[b2] = true
					}
				}
				okRaise := sameBlockBefore
				if !okRaise && len(raised) > 0 && !raised[b] {
					okRaise = !reachableAvoiding(fn.Blocks[0], raised, nil)[b]
				}
				// (b) a dominating comparison of the two markers (interprocedural guard context)
				facts := p.ctxFacts(b)
				okCmp := len(facts) > 0 && facts.every(func(cj conj) bool {
					return cj.has(func(a atom) bool {
						_, x, y, isCmp := cmpAtom(a)
						return isCmp && ((isMarkerLoadOf(x, "data") && isMarkerLoadOf(y, "meta")) || (isMarkerLoadOf(x, "meta") && isMarkerLoadOf(y, "data")))
					})
				})
				_ = key
				for _, o := range owners {
					k := o + "|data-end-advance"
					if okRaise || okCmp {
						rep.OK("DATA-END-SKIPS-OVERFLOW", k, p.InstrPos(ins), "the meta end marker is taken into account before pages are taken from the end of the data area")
					} else {
						rep.Bad("DATA-END-SKIPS-OVERFLOW", k, p.InstrPos(ins), badMsgDataEnd)
					}
				}
				if false {
					rep.Bad("DATA-END-SKIPS-OVERFLOW", key, p.InstrPos(ins), "pages are allocated from the unused end of the data area starting at the data end marker without regard to the meta end marker: when the overflow area is in use (meta end marker beyond the data end marker) and the size limit no longer separates the two — the maximum size was raised on open — live overwrite, mapping and free-list pages in [data end, meta end) are handed out as data pages and overwritten")
				}
			}
		}
	}
	if n == 0 {
		rep.Unknown("DATA-END-SKIPS-OVERFLOW", "anchor", "", "no allocFromArea on the data end marker found (anchor lost)")
	}
}

// dataSliceHasMarker: the data slice of v contains a load of <area>.endMarker.
func dataSliceHasMarker(p *Program, v ssa.Value, endMarker *types.Var, area string) bool {
	sl := &slicer{p: p, fields: map[*types.Var]bool{}, seen: map[sliceKey]bool{}, dataOnly: true}
	sl.walk(v, 0, nil, 0)
	for _, l := range sl.loads {
		if areaOfMarkerAddr(l.X, endMarker) == area {
			return true
		}
	}
	return false
}

// ---- PAGES-COUNT (C05): the number of pages reported with a flush range is the length of that range ----

// rulePAGESCOUNT: buffer.Pages hands the flush a page range [start, end) and the number of pages in it;
// Writer.doFlush derives from that number how many pages it has to allocate and asserts the result.  When
// the range stops before the end of the buffer's page list (end != nil: the pages behind belong to an event
// that is still being written) the number cannot be the buffer's total page count.  (D17: it was — a flush
// in the middle of an event that had already spilled onto further pages panicked.)
func rulePAGESCOUNT(p *Program, rep *Report) {
	rep.Rule("PAGES-COUNT", 1, "on every return of buffer.Pages with a range that ends before the end of the page list (end is not the nil constant) the page count returned does not derive from buffer.countPages, the total number of buffered pages: it has to be the length of the returned range")
	fn := p.Method("pq", "buffer", "Pages")
	total := p.FieldVar("pq", "buffer", "countPages")
	rep.Analysed(funcName(fn))
	n := 0
	// (end, count) pairs of every return; a return that forwards the result tuple of a helper is judged
	// at the helper's returns
	var visit func(f *ssa.Function, depth int)
	visit = func(f *ssa.Function, depth int) {
		for _, b := range f.Blocks {
			r, ok := b.Instrs[len(b.Instrs)-1].(*ssa.Return)
			if !ok || len(r.Results) != 3 {
				continue
			}
			end, cnt := retVal(r, 1), retVal(r, 2)
			if e1, isEx := end.(*ssa.Extract); isEx && depth < 3 {
				if e2, isEx2 := cnt.(*ssa.Extract); isEx2 && e1.Tuple == e2.Tuple && e1.Index == 1 && e2.Index == 2 {
					if c, isCall := e1.Tuple.(*ssa.Call); isCall {
						if g := c.Common().StaticCallee(); g != nil && fnPkgPath(g) == modPath+"/pq" && len(g.Blocks) > 0 && g.Signature.Results().Len() == 3 {
							rep.Analysed(funcName(g))
							visit(g, depth+1)
							continue
						}
					}
				}
			}
			if isNilConst(end) {
				continue
			}
			n++
			key := "buffer.Pages|partial-range-count"
			if dataSliceHas(p, cnt, nil, total, nil) {
				rep.Bad("PAGES-COUNT", key, p.InstrPos(r), "buffer.Pages returns a page range that ends before the end of the buffer's page list together with a count derived from buffer.countPages (all buffered pages): when the event being written has already spilled onto pages behind the range, Writer.doFlush expects more page allocations than the range needs and its allocation-counter invariant panics — a flush in the middle of a streamed event kills the producer")
			} else {
				rep.OK("PAGES-COUNT", key, p.InstrPos(r), "count computed from the returned range")
			}
		}
	}
	visit(fn, 0)
	if n == 0 {
		rep.Unknown("PAGES-COUNT", "buffer.Pages", p.Pos(fn.Pos()), "buffer.Pages has no return with a partial range (anchor lost)")
	}
}


// ---- CALLBACK-LAST (C17) ----

// ruleCALLBACKLAST: Settings.Flushed / Settings.ACKed are user code and may call back into the queue (enqueue an
// event from the Flushed callback, ACK from the ACKed callback).  They are therefore invoked only when the
// bookkeeping of the flush / ACK is complete: no store to the writer's or the acker's state may follow the
// invocation inside the invoking function — a reset executed after the callback wipes what the callback did.
func ruleCALLBACKLAST(p *Program, rep *Report) {
	rep.Rule("CALLBACK-LAST", 2, "after the invocation of Settings.Flushed / Settings.ACKed no store to the Writer's writeState or to the acker's counters is reachable in the invoking function: the callbacks run on consistent, final state (they may re-enter the queue)")
	cbF := p.FieldVar("pq", "Writer", "flushCB")
	cbA := p.FieldVar("pq", "acker", "ackCB")
	n := 0
	for _, fn := range p.SrcFuncs() {
		if fnPkgPath(fn) != modPath+"/pq" {
			continue
		}
		for _, b := range fn.Blocks {
			for i, ins := range b.Instrs {
				c, ok := ins.(*ssa.Call)
				if !ok || c.Common().IsInvoke() || c.Common().StaticCallee() != nil {
					continue
				}
				f := loadedField(c.Common().Value)
				if f != cbF && f != cbA {
					continue
				}
				n++
				rep.Analysed(funcName(fn))
				owner := "writeState"
				if f == cbA {
					owner = "acker"
				}
				key := funcName(fn) + "|" + f.Name()
				late := ""
				check := func(x ssa.Instruction) {
					st, isSt := x.(*ssa.Store)
					if !isSt {
						return
					}
					g := addrField(st.Addr)
					if g != nil && pqFieldOwner(p, g) == owner {
						late = owner + "." + g.Name() + " at " + p.InstrPos(x)
					}
				}
				for j := i + 1; j < len(b.Instrs); j++ {
					check(b.Instrs[j])
				}
				for blk := range reachableAvoiding(b, nil, nil) {
					if blk == b {
						continue
					}
					for _, x := range blk.Instrs {
						check(x)
					}
				}
				if late == "" {
					rep.OK("CALLBACK-LAST", key, p.InstrPos(ins), "no state update follows the callback")
				} else {
					rep.Bad("CALLBACK-LAST", key, p.InstrPos(ins), "the user callback is invoked before the bookkeeping is complete: "+late+" is written after it — an event enqueued (or an ACK issued) from inside the callback is counted and then wiped by the late update, so the totals the callbacks report fall behind the events actually flushed / ACKed")
				}
			}
		}
	}
	if n == 0 {
		rep.Unknown("CALLBACK-LAST", "anchor", "", "no invocation of the Flushed / ACKed callbacks found in package pq (anchor lost)")
	}
}

// ---- MAPPED-BOUND-EXACT (C10) ----

// ruleMAPPEDBOUNDEXACT: File.mmapedPage hands out mapped[start:end]; the check that guards the slice has to
// admit exactly what the slice expression admits (end <= len(mapped)).  A stricter guard (end < len) rejects
// the LAST page of the mapping; for a bounded file the mapping ends exactly at the size limit, so a free-list
// or overwrite-mapping page that happens to be the last page cannot be read back when the file is opened —
// while the instance that wrote it never reads its own meta pages and keeps working.
func ruleMAPPEDBOUNDEXACT(p *Program, rep *Report) {
	rep.Rule("MAPPED-BOUND-EXACT", 1, "every slice f.mapped[lo:hi] of the memory mapping in File.mmapedPage is guarded by a comparison of hi with len(f.mapped) that admits hi == len (the last page of the mapping is a valid page)")
	fn := p.Method("txfile", "File", "mmapedPage")
	mapped := p.FieldVar("txfile", "File", "mapped")
	rep.Analysed(funcName(fn))
	isLenMapped := func(v ssa.Value) bool {
		c, ok := stripConv(v).(*ssa.Call)
		if !ok {
			return false
		}
		bi, ok := c.Common().Value.(*ssa.Builtin)
		return ok && bi.Name() == "len" && loadedField(c.Common().Args[0]) == mapped
	}
	n := 0
	for f := range staticReach(p, fn) {
		if fnPkgPath(f) != modPath {
			continue
		}
		for _, b := range f.Blocks {
			for _, ins := range b.Instrs {
				sl, ok := ins.(*ssa.Slice)
				if !ok || loadedField(sl.X) != mapped || sl.High == nil {
					continue
				}
				n++
				key := funcName(f) + "|mapped[:hi]"
				hi := stripConv(sl.High)
				verdict := "" // "exact", "strict", ""
				for _, cj := range expandPredicates(p, p.ctxFacts(b), 0) {
					for _, a := range cj {
						op, x, y, isCmp := cmpAtom(a)
						if !isCmp {
							continue
						}
						var rel token.Token // relation  hi REL len
						switch {
						case stripConv(x) == hi && isLenMapped(y):
							rel = op
						case isLenMapped(x) && stripConv(y) == hi:
							switch op {
							case token.LSS:
								rel = token.GTR
							case token.LEQ:
								rel = token.GEQ
							case token.GTR:
								rel = token.LSS
							case token.GEQ:
								rel = token.LEQ
							default:
								rel = op
							}
						default:
							continue
						}
						switch rel {
						case token.LEQ:
							verdict = "exact"
						case token.LSS:
							if verdict == "" {
								verdict = "strict"
							}
						}
					}
				}
				switch verdict {
				case "exact":
					rep.OK("MAPPED-BOUND-EXACT", key, p.InstrPos(ins), "guarded by hi <= len(mapped)")
				case "strict":
					rep.Bad("MAPPED-BOUND-EXACT", key, p.InstrPos(ins), "the page slice of the memory mapping is guarded by hi < len(mapped): the last page of the mapping is reported as out of bounds. A bounded file is mapped exactly up to its size limit, so a free-list / overwrite-mapping page that is the last page cannot be read when the file is opened again (Open fails) although the writing instance worked")
				default:
					rep.Unknown("MAPPED-BOUND-EXACT", key, p.InstrPos(ins), "no dominating comparison of the slice bound with len(File.mapped) found")
				}
			}
		}
	}
	if n == 0 {
		rep.Unknown("MAPPED-BOUND-EXACT", "anchor", p.Pos(fn.Pos()), "File.mmapedPage no longer slices File.mapped (anchor lost)")
	}
}

// ---- ADVANCE-BETWEEN-EVENTS (C05) ----

// ruleADVANCEBETWEENEVENTS: the reader skips the unusable tail of a page (fewer bytes than an event header)
// eagerly after a read — but only when the event is finished.  The tail of a page does hold PAYLOAD of an event
// that continues on the next page; skipping it while bytes of the event remain drops them (partial reads that
// end 1–3 bytes before a page end).
func ruleADVANCEBETWEENEVENTS(p *Program, rep *Report) {
	rep.Rule("ADVANCE-BETWEEN-EVENTS", 1, "in the reader's copy routine (Reader.readInto and helpers) a call of txCursor.AdvancePage is dominated by the fact that no byte of the current event remains (readState.eventBytes == 0, or the block follows the store that marks the event finished)")
	root := p.Method("pq", "Reader", "readInto")
	adv := p.Method("pq", "txCursor", "AdvancePage")
	evB := p.FieldVar("pq", "readState", "eventBytes")
	n := 0
	for _, fn := range sortedFns(staticReach(p, root)) {
		if fnPkgPath(fn) != modPath+"/pq" || strings.Contains(funcName(fn), "txCursor") || strings.Contains(funcName(fn), "(*pq.cursor)") {
			continue
		}
		for _, b := range fn.Blocks {
			for i, ins := range b.Instrs {
				c, ok := ins.(ssa.CallInstruction)
				if !ok || c.Common().StaticCallee() != adv {
					continue
				}
				n++
				rep.Analysed(funcName(fn))
				key := funcName(fn) + "|AdvancePage"
				finished := false
				// (a) dominating fact eventBytes == 0 (also through the caller's guard)
				facts := expandPredicates(p, p.ctxFacts(b), 0)
				if len(facts) > 0 && facts.every(func(cj conj) bool {
					return cj.has(func(a atom) bool {
						op, x, y, isCmp := cmpAtom(a)
						return isCmp && op == token.EQL && ((loadedField(x) == evB && isIntConst(y, 0)) || (loadedField(y) == evB && isIntConst(x, 0)))
					})
				}) {
					finished = true
				}
				// (b) a store marking the event finished (eventBytes = negative constant) dominates the call
				for _, b2 := range fn.Blocks {
					for j, in2 := range b2.Instrs {
						st, isSt := storesToField(in2, evB)
						if !isSt {
							continue
						}
						k, isC := constIntOf(st.Val)
						if !isC || k >= 0 {
							continue
						}
						if (b2 == b && j < i) || (b2 != b && b2.Dominates(b)) {
							finished = true
						}
					}
				}
				if finished {
					rep.OK("ADVANCE-BETWEEN-EVENTS", key, p.InstrPos(ins), "page advance only after the event is finished")
				} else {
					rep.Bad("ADVANCE-BETWEEN-EVENTS", key, p.InstrPos(ins), "the reader's copy routine advances to the next page although bytes of the current event may remain: the last bytes of a page (fewer than an event header) still hold payload of an event that continues on the next page — a partial Read that stops there loses them, the rest of the event is shifted and the next event is decoded from a wrong offset")
				}
			}
		}
	}
	if n == 0 {
		rep.OK("ADVANCE-BETWEEN-EVENTS", "Reader.readInto|no-advance", p.Pos(root.Pos()), "the copy routine does not advance pages itself")
	}
}
