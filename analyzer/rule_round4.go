package main

// Rules added after the fourth round of independently seeded changes (DESIGN.md §8.8).

import (
	"fmt"
	"go/types"
	"sort"
	"strings"

	"golang.org/x/tools/go/ssa"
)

// ---- must-pass-through with helper summaries ----

// everyReturnPasses: every Return of fn that is reachable from the entry executes, before it, an
// instruction matching pred — directly, or inside a statically called repository function all of whose
// returns pass (depth-bounded), or as a deferred call that is registered on every path.
func everyReturnPasses(p *Program, fn *ssa.Function, pred func(ssa.Instruction) bool, depth int) bool {
	if fn == nil || len(fn.Blocks) == 0 || depth > 3 {
		return false
	}
	match := func(ins ssa.Instruction) bool {
		if pred(ins) {
			return true
		}
		if c, ok := ins.(ssa.CallInstruction); ok {
			if _, isGo := ins.(*ssa.Go); isGo {
				return false
			}
			if cal := c.Common().StaticCallee(); cal != nil && fnPkgPath(cal) != "" && strings.HasPrefix(fnPkgPath(cal), modPath) && cal != fn {
				return everyReturnPasses(p, cal, pred, depth+1)
			}
		}
		return false
	}
	blocked := map[*ssa.BasicBlock]bool{}
	for _, b := range fn.Blocks {
		for _, ins := range b.Instrs {
			if match(ins) {
				blocked[b] = true
				break
			}
		}
	}
	reach := reachableAvoiding(fn.Blocks[0], blocked, nil)
	for b := range reach {
		if _, ok := b.Instrs[len(b.Instrs)-1].(*ssa.Return); ok {
			return false
		}
	}
	return true
}

// storesToField: instruction stores to the given struct field (through a FieldAddr).
func storesToField(ins ssa.Instruction, f *types.Var) (*ssa.Store, bool) {
	st, ok := ins.(*ssa.Store)
	if !ok {
		return nil, false
	}
	fa, ok := st.Addr.(*ssa.FieldAddr)
	if !ok {
		return nil, false
	}
	return st, fieldOfAddr(fa) == f
}

// ruleQUEUEUNCONDITIONAL (C01, C08): the hand-off to the background writer is unconditional.  A sync request
// is more than an fsync: it is the barrier that orders the header behind the data pages, the only carrier
// of syncResetErr (which clears the writer's sticky error after a failed commit) and the point at which
// the waiting transaction is released.  So every call of writer.Sync must enqueue its message, whatever
// the sync mode or other configuration — and likewise writer.Schedule for page writes.
func ruleQUEUEUNCONDITIONAL(p *Program, rep *Report) {
	rep.Rule("QUEUE-UNCONDITIONAL", 2, "every path through writer.Schedule / writer.Sync retains the transaction's txWriteSync, appends a message built from all of its arguments to the writer's queue and wakes the writer: no configuration (sync mode) may turn a barrier into a no-op on the scheduling side, because the barrier also carries the error reset and the completion hand-off")
	type inst struct {
		method, field string
	}
	retain := p.Method("txfile", "txWriteSync", "Retain")
	for _, it := range []inst{{"Schedule", "scheduled"}, {"Sync", "fsync"}} {
		fn := p.Method("txfile", "writer", it.method)
		f := p.FieldVar("txfile", "writer", it.field)
		rep.Analysed(funcName(fn))
		key := "writer." + it.method + "|enqueue"
		pos := p.Pos(fn.Pos())
		var problems []string
		if !everyReturnPasses(p, fn, func(ins ssa.Instruction) bool { _, ok := storesToField(ins, f); return ok }, 0) {
			problems = append(problems, "some path returns without appending to writer."+it.field)
		}
		if !everyReturnPasses(p, fn, func(ins ssa.Instruction) bool {
			c, ok := ins.(ssa.CallInstruction)
			return ok && c.Common().StaticCallee() == retain
		}, 0) {
			problems = append(problems, "some path returns without txWriteSync.Retain (Wait would not wait for this request)")
		}
		if !everyReturnPasses(p, fn, func(ins ssa.Instruction) bool {
			c, ok := ins.(ssa.CallInstruction)
			if !ok {
				return false
			}
			sc := c.Common().StaticCallee()
			return isSyncMethod(sc, "Cond", "Signal") || isSyncMethod(sc, "Cond", "Broadcast")
		}, 0) {
			problems = append(problems, "some path returns without waking the writer (Cond.Signal)")
		}
		// the queued message is built from every argument
		var stores []*ssa.Store
		for fr := range staticReach(p, fn) {
			if fnPkgPath(fr) != modPath {
				continue
			}
			for _, b := range fr.Blocks {
				for _, ins := range b.Instrs {
					if st, ok := storesToField(ins, f); ok {
						stores = append(stores, st)
					}
				}
			}
		}
		if len(stores) == 0 {
			rep.Unknown("QUEUE-UNCONDITIONAL", key, pos, "no store to writer."+it.field+" below writer."+it.method+" (anchor lost)")
			continue
		}
		for _, par := range fn.Params[1:] {
			used := false
			for _, st := range stores {
				s := &slicer{p: p, fields: map[*types.Var]bool{}, seen: map[sliceKey]bool{}, within: staticReach(p, fn)}
				s.walk(st.Val, 0, nil, 0)
				for k := range s.seen {
					if k.v == par {
						used = true
					}
				}
			}
			if !used {
				problems = append(problems, "argument "+par.Name()+" does not reach the queued message")
			}
		}
		if len(problems) == 0 {
			rep.OK("QUEUE-UNCONDITIONAL", key, pos, fmt.Sprintf("retain, append to writer.%s (all %d arguments), signal on every path", it.field, len(fn.Params)-1))
		} else {
			sort.Strings(problems)
			rep.Bad("QUEUE-UNCONDITIONAL", key, pos, "writer."+it.method+": "+strings.Join(problems, "; ")+" — a request that is not queued is never executed: the barrier order, the reset of the writer's sticky error (syncResetErr) and the release of the waiting transaction all depend on the message")
		}
	}
}

// ruleBOUNDSOURCE (C15, C02): the page-id bound of a read-only transaction is a snapshot of the COMMITTED
// header (metaPage.dataEndMarker).  The allocator's end marker is the working value of the running write
// transaction; a bound read from it admits page ids that were never committed (and keeps admitting them
// after that writer rolled back).
func ruleBOUNDSOURCE(p *Program, rep *Report) {
	rep.Rule("BOUND-SOURCE", 1, "every value stored into Tx.dataEndID (the upper page-id bound of read-only transactions) is computed from the committed header's dataEndMarker and does not depend on the live allocator state (allocArea.endMarker)")
	bound := p.FieldVar("txfile", "Tx", "dataEndID")
	hdr := p.FieldVar("txfile", "metaPage", "dataEndMarker")
	live := p.FieldVar("txfile", "allocArea", "endMarker")
	n := 0
	for _, fn := range p.SrcFuncs() {
		if fnPkgPath(fn) != modPath {
			continue
		}
		for _, b := range fn.Blocks {
			for _, ins := range b.Instrs {
				st, ok := storesToField(ins, bound)
				if !ok {
					continue
				}
				n++
				rep.Analysed(funcName(fn))
				key := funcName(fn) + "|Tx.dataEndID"
				s := &slicer{p: p, fields: map[*types.Var]bool{}, seen: map[sliceKey]bool{}, within: map[*ssa.Function]bool{}}
				for _, site := range p.callIndex().sites[fn] {
					s.within[site.Parent()] = true
				}
				s.walk(st.Val, 0, nil, 0)
				switch {
				case s.fields[live]:
					rep.Bad("BOUND-SOURCE", key, p.InstrPos(ins), "the read-only page bound Tx.dataEndID depends on allocArea.endMarker, the working end marker of the active write transaction: a reader begun while a writer has uncommitted allocations accepts page ids beyond the committed state instead of reporting InvalidPageID")
				case !s.fields[hdr]:
					rep.Bad("BOUND-SOURCE", key, p.InstrPos(ins), "the read-only page bound Tx.dataEndID is not computed from the committed header's dataEndMarker")
				default:
					rep.OK("BOUND-SOURCE", key, p.InstrPos(ins), "snapshot of metaPage.dataEndMarker")
				}
			}
		}
	}
	if n == 0 {
		rep.Unknown("BOUND-SOURCE", "anchor", "", "no store to Tx.dataEndID found (anchor lost)")
	}
}
