package main

// Interprocedural backward data slice (with control dependence of φ nodes) of an SSA value, used by the
// "which fields can influence this result" rules.  Calls to repository functions are followed into the
// returned result (result-index aware), parameters are bound to the arguments of the call the slice came
// through.  The slice is an over-approximation of data dependence on struct fields (field addresses seen
// on the way are recorded) and is only ever used in the direction "must be able to depend on".

import (
	"go/token"
	"go/types"

	"golang.org/x/tools/go/ssa"
)

type slicer struct {
	p      *Program
	fields map[*types.Var]bool
	seen   map[sliceKey]bool
	steps  int
	loads  []*ssa.UnOp             // every load visited
	curLoad ssa.Instruction
	within map[*ssa.Function]bool // when set: a parameter reached without call context is followed to the call sites inside these functions
	dataOnly bool                 // data dependence only: no control dependence of φ nodes / of which return is taken
	noPhi    bool                 // do not pass through φ nodes (same-iteration / same-path dependence only)
	forward  bool                 // store-to-load forwarding inside one function for field addresses with an identical base
}

type sliceKey struct {
	v   ssa.Value
	ctx ssa.CallInstruction
	idx int
}

type sliceCtx struct {
	call ssa.CallInstruction
	up   *sliceCtx
}

func fieldsInfluencing(p *Program, v ssa.Value) map[*types.Var]bool {
	s := &slicer{p: p, fields: map[*types.Var]bool{}, seen: map[sliceKey]bool{}}
	s.walk(v, 0, nil, 0)
	return s.fields
}

func (s *slicer) walk(v ssa.Value, idx int, ctx *sliceCtx, depth int) {
	if v == nil || depth > 40 || s.steps > 20000 {
		return
	}
	var top ssa.CallInstruction
	if ctx != nil {
		top = ctx.call
	}
	k := sliceKey{v, top, idx}
	if s.seen[k] {
		return
	}
	s.seen[k] = true
	s.steps++
	switch x := v.(type) {
	case *ssa.Const, *ssa.Function, *ssa.Global, *ssa.Builtin:
	case *ssa.Parameter:
		if ctx == nil {
			if s.within != nil {
				if pi := paramIndex(x.Parent(), x); pi >= 0 {
					for _, site := range s.p.callIndex().sites[x.Parent()] {
						if s.within[site.Parent()] && pi < len(site.Common().Args) {
							s.walk(site.Common().Args[pi], 0, nil, depth+1)
						}
					}
				}
			}
			return
		}
		if pi := paramIndex(x.Parent(), x); pi >= 0 && pi < len(ctx.call.Common().Args) && ctx.call.Common().StaticCallee() == x.Parent() {
			s.walk(ctx.call.Common().Args[pi], 0, ctx.up, depth+1)
		}
	case *ssa.FreeVar:
	case *ssa.FieldAddr:
		if f := fieldOfAddr(x); f != nil {
			s.fields[f] = true
		}
		s.walk(x.X, 0, ctx, depth+1)
	case *ssa.Field:
		s.fields[fieldOfField(x)] = true
		s.walk(x.X, 0, ctx, depth+1)
	case *ssa.UnOp:
		if x.Op == token.MUL {
			s.loads = append(s.loads, x)
			prev := s.curLoad
			s.curLoad = x
			s.load(x.X, ctx, depth+1)
			s.curLoad = prev
		} else {
			s.walk(x.X, 0, ctx, depth+1)
		}
	case *ssa.Alloc:
		s.stores(x, nil, ctx, depth+1)
	case *ssa.BinOp:
		s.walk(x.X, 0, ctx, depth+1)
		s.walk(x.Y, 0, ctx, depth+1)
	case *ssa.Convert:
		s.walk(x.X, 0, ctx, depth+1)
	case *ssa.ChangeType:
		s.walk(x.X, 0, ctx, depth+1)
	case *ssa.ChangeInterface:
		s.walk(x.X, 0, ctx, depth+1)
	case *ssa.MakeInterface:
		s.walk(x.X, 0, ctx, depth+1)
	case *ssa.TypeAssert:
		s.walk(x.X, 0, ctx, depth+1)
	case *ssa.Slice:
		s.walk(x.X, 0, ctx, depth+1)
		for _, bnd := range []ssa.Value{x.Low, x.High, x.Max} {
			if bnd != nil {
				s.walk(bnd, 0, ctx, depth+1)
			}
		}
	case *ssa.IndexAddr:
		s.walk(x.X, 0, ctx, depth+1)
		s.walk(x.Index, 0, ctx, depth+1)
	case *ssa.Index:
		s.walk(x.X, 0, ctx, depth+1)
		s.walk(x.Index, 0, ctx, depth+1)
	case *ssa.Lookup:
		s.walk(x.X, 0, ctx, depth+1)
		s.walk(x.Index, 0, ctx, depth+1)
	case *ssa.Extract:
		s.walk(x.Tuple, x.Index, ctx, depth+1)
	case *ssa.Phi:
		if s.noPhi {
			return
		}
		for i, e := range x.Edges {
			s.walk(e, 0, ctx, depth+1)
			if s.dataOnly {
				continue
			}
			for _, cj := range edgeFacts(x.Block().Preds[i], x.Block(), 0, map[ssa.Value]bool{}) {
				for _, a := range cj {
					s.walk(a.v, 0, ctx, depth+1)
				}
			}
		}
	case *ssa.Call:
		sc := x.Common().StaticCallee()
		if sc != nil && s.p.InRepo(sc) && len(sc.Blocks) > 0 && depth < 30 {
			nctx := &sliceCtx{call: x, up: ctx}
			for _, b := range sc.Blocks {
				if r, ok := b.Instrs[len(b.Instrs)-1].(*ssa.Return); ok && idx < len(r.Results) {
					s.walk(r.Results[idx], 0, nctx, depth+1)
					if s.dataOnly {
						continue
					}
					// which return is taken is a control dependence
					for _, cj := range blockFacts(b) {
						for _, a := range cj {
							s.walk(a.v, 0, nctx, depth+1)
						}
					}
				}
			}
			return
		}
		if !x.Common().IsInvoke() {
			s.walk(x.Common().Value, 0, ctx, depth+1)
		}
		for _, a := range x.Common().Args {
			s.walk(a, 0, ctx, depth+1)
		}
	}
}

// load: the values a load from addr can observe — stores to the same alloca (whole or same field); for
// other addresses the address computation itself (the field path) is the dependence.
func (s *slicer) load(addr ssa.Value, ctx *sliceCtx, depth int) {
	switch a := addr.(type) {
	case *ssa.Alloc:
		s.stores(a, nil, ctx, depth)
		return
	case *ssa.FieldAddr:
		if base, ok := a.X.(*ssa.Alloc); ok {
			if f := fieldOfAddr(a); f != nil {
				s.fields[f] = true
			}
			s.stores(base, fieldOfAddr(a), ctx, depth)
			return
		}
		if s.forward {
			if st := forwardedStore(a, s.curLoad); st != nil {
				s.walk(st.Val, 0, ctx, depth)
				return
			}
		}
	}
	s.walk(addr, 0, ctx, depth)
}

// sameAddr: two address expressions denote the same location by construction (same SSA base, same field path).
func sameAddr(x, y ssa.Value) bool {
	if x == y {
		return true
	}
	fx, ok1 := x.(*ssa.FieldAddr)
	fy, ok2 := y.(*ssa.FieldAddr)
	if ok1 && ok2 {
		return fieldOfAddr(fx) == fieldOfAddr(fy) && sameAddr(fx.X, fy.X)
	}
	return false
}

// forwardedStore: the store whose value a load of addr (at instruction load) observes, when that is decided by
// the shape of the function: among the stores of the function to the same location, one dominates the load
// and no other store can execute between it and the load.  nil when undecided.
func forwardedStore(addr *ssa.FieldAddr, load ssa.Instruction) *ssa.Store {
	if load == nil {
		return nil
	}
	fn := load.Parent()
	lb := load.Block()
	var doms, others []*ssa.Store
	for _, b := range fn.Blocks {
		for _, ins := range b.Instrs {
			st, ok := ins.(*ssa.Store)
			if !ok || !sameAddr(st.Addr, addr) {
				continue
			}
			if (b == lb && instrIndex(b, st) < instrIndex(lb, load)) || (b != lb && b.Dominates(lb)) {
				doms = append(doms, st)
			} else {
				others = append(others, st)
			}
		}
	}
	if len(doms) == 0 {
		return nil
	}
	// latest dominating store
	best := doms[0]
	for _, d := range doms[1:] {
		if (d.Block() == best.Block() && instrIndex(d.Block(), d) > instrIndex(best.Block(), best)) || (d.Block() != best.Block() && best.Block().Dominates(d.Block())) {
			best = d
		}
	}
	// no other store may run between best and the load
	for _, o := range others {
		if o.Block() == lb {
			if instrIndex(lb, o) > instrIndex(lb, load) {
				// after the load in the same block: only a problem inside a loop
				if reachableAvoiding(lb, nil, nil)[lb] && blockInCycle(lb) {
					return nil
				}
				continue
			}
		}
		if reachableAvoiding(o.Block(), map[*ssa.BasicBlock]bool{best.Block(): true}, nil)[lb] {
			return nil
		}
	}
	return best
}

func blockInCycle(b *ssa.BasicBlock) bool {
	for _, s := range b.Succs {
		if s == b || reachableAvoiding(s, nil, nil)[b] {
			return true
		}
	}
	return false
}

func (s *slicer) stores(a *ssa.Alloc, field *types.Var, ctx *sliceCtx, depth int) {
	if a.Referrers() == nil {
		return
	}
	for _, r := range *a.Referrers() {
		switch x := r.(type) {
		case *ssa.Store:
			if x.Addr == ssa.Value(a) {
				s.walk(x.Val, 0, ctx, depth+1)
			}
		case *ssa.FieldAddr:
			if field != nil && fieldOfAddr(x) != field {
				continue
			}
			if x.Referrers() == nil {
				continue
			}
			for _, rr := range *x.Referrers() {
				if st, ok := rr.(*ssa.Store); ok && st.Addr == ssa.Value(x) {
					s.walk(st.Val, 0, ctx, depth+1)
				}
			}
		case *ssa.IndexAddr:
			// element of a local array (the backing array of a variadic/append literal): stores to the
			// element or to its fields
			if field != nil || x.Referrers() == nil {
				continue
			}
			for _, rr := range *x.Referrers() {
				switch y := rr.(type) {
				case *ssa.Store:
					if y.Addr == ssa.Value(x) {
						s.walk(y.Val, 0, ctx, depth+1)
					}
				case *ssa.FieldAddr:
					if y.Referrers() == nil {
						continue
					}
					for _, r3 := range *y.Referrers() {
						if st, ok := r3.(*ssa.Store); ok && st.Addr == ssa.Value(y) {
							s.walk(st.Val, 0, ctx, depth+1)
						}
					}
				}
			}
		}
	}
}

// ruleCOUNTERSOURCES (C17): Pending and Active count the events between the read position (the head while
// nothing was ACKed) and the tail; Available counts between the reader's id and the end id it adopted.
func ruleCOUNTERSOURCES(p *Program, rep *Report) {
	rep.Rule("COUNTER-SOURCES", 3, "each queue counter is computed from the header positions it is defined by: Pending and Active from tail, read and (while nothing is ACKed) head of the queue header — and the two siblings agree on that set —, Reader.Available from the reader's own id and the adopted end id: a counter that cannot depend on one of them cannot equal flushed minus ACKed (resp. flushed minus consumed) once that position moves")
	qp := func(f string) *types.Var { return p.FieldVar("pq", "queuePage", f) }
	hdrFields := []*types.Var{qp("head"), qp("read"), qp("tail")}
	rs := func(f string) *types.Var { return p.FieldVar("pq", "readState", f) }
	type target struct {
		fn   *ssa.Function
		need []*types.Var
	}
	targets := []target{
		{p.Method("pq", "Queue", "Pending"), hdrFields},
		{p.Method("pq", "acker", "Active"), hdrFields},
		{p.Method("pq", "Reader", "Available"), []*types.Var{rs("id"), rs("endID")}},
	}
	got := map[*ssa.Function]map[*types.Var]bool{}
	for _, t := range targets {
		rep.Analysed(funcName(t.fn))
		infl := map[*types.Var]bool{}
		nret := 0
		for _, b := range t.fn.Blocks {
			r, ok := b.Instrs[len(b.Instrs)-1].(*ssa.Return)
			if !ok || len(r.Results) < 2 {
				continue
			}
			// only returns that can carry a nil error report a count
			if c, isConst := retVal(r, 1).(*ssa.Const); !isConst || c.Value != nil {
				continue
			}
			nret++
			for f := range fieldsInfluencing(p, retVal(r, 0)) {
				infl[f] = true
			}
		}
		got[t.fn] = infl
		key := funcName(t.fn) + "|sources"
		if nret == 0 {
			rep.Unknown("COUNTER-SOURCES", key, p.Pos(t.fn.Pos()), "no return with a nil error found")
			continue
		}
		missing := ""
		for _, f := range t.need {
			if !infl[f] {
				missing += " " + f.Name()
			}
		}
		if missing != "" {
			rep.Bad("COUNTER-SOURCES", key, p.Pos(t.fn.Pos()), "the count returned cannot depend on:"+missing+" — it does not follow the event history once that position moves (e.g. after an ACK the read position, not the head, marks the first un-ACKed event)")
		} else {
			rep.OK("COUNTER-SOURCES", key, p.Pos(t.fn.Pos()), "count depends on every defining position")
		}
	}
}

// retVal: result i of a return; when the function has defers the results are spilled (stored to the result
// cell, rundefers, loaded again) — then the value last stored to the cell in the returning block.
func retVal(r *ssa.Return, i int) ssa.Value {
	v := r.Results[i]
	u, ok := v.(*ssa.UnOp)
	if !ok || u.Op != token.MUL {
		return v
	}
	a, ok := u.X.(*ssa.Alloc)
	if !ok {
		return v
	}
	b := r.Block()
	var last ssa.Value
	for _, ins := range b.Instrs {
		if ins == ssa.Instruction(u) {
			break
		}
		if st, ok := ins.(*ssa.Store); ok && st.Addr == ssa.Value(a) {
			last = st.Val
		}
	}
	if last != nil {
		return last
	}
	return v
}

// sliceOf runs the backward slice and returns fields and parameters (of fn) reached.
func sliceOf(p *Program, v ssa.Value) (fields map[*types.Var]bool, params map[*ssa.Parameter]bool) {
	s := &slicer{p: p, fields: map[*types.Var]bool{}, seen: map[sliceKey]bool{}}
	s.walk(v, 0, nil, 0)
	params = map[*ssa.Parameter]bool{}
	for k := range s.seen {
		if par, ok := k.v.(*ssa.Parameter); ok && k.ctx == nil {
			params[par] = true
		}
	}
	return s.fields, params
}

// ruleACKBOUND (C15): ACKing more events than are pending is refused.  "Pending" is the distance from the
// read position to the tail, so the branch that raises ACKTooMany has to be decided by the request, the
// tail and the read position.
func ruleACKBOUND(p *Program, rep *Report) {
	rep.Rule("ACK-BOUND", 1, "the branch that reports ACKTooMany is decided by a condition that depends on the number of events to ACK, on the queue header's tail and on its read position (the first un-ACKed event): a bound measured from any other position admits an ACK beyond the tail once events of the head page have been ACKed, and the read position stored by that ACK lies past the tail")
	kind := p.PQ.Const("ACKTooMany")
	if kind == nil {
		panic(vocabMiss{"pq.ACKTooMany"})
	}
	read := p.FieldVar("pq", "queuePage", "read")
	tail := p.FieldVar("pq", "queuePage", "tail")
	n := 0
	for _, fn := range p.SrcFuncs() {
		if fnPkgPath(fn) != modPath+"/pq" {
			continue
		}
		for _, b := range fn.Blocks {
			for _, ins := range b.Instrs {
				c, ok := ins.(*ssa.Call)
				if !ok {
					continue
				}
				isKind := false
				for _, a := range c.Common().Args {
					if k, ok := a.(*ssa.Const); ok && k.Value != nil && types.Identical(k.Type(), kind.Value.Type()) && k.Value.ExactString() == kind.Value.Value.ExactString() {
						isKind = true
					}
				}
				if !isKind {
					continue
				}
				n++
				rep.Analysed(funcName(fn))
				key := funcName(fn) + "|ACKTooMany-guard"
				// the branch deciding this block: walk up single-predecessor chains to the nearest If
				blk := b
				var cond ssa.Value
				for blk != nil && cond == nil {
					if len(blk.Preds) != 1 {
						break
					}
					pr := blk.Preds[0]
					if iff, ok := pr.Instrs[len(pr.Instrs)-1].(*ssa.If); ok {
						cond = iff.Cond
					}
					blk = pr
				}
				if cond == nil {
					rep.Unknown("ACK-BOUND", key, p.InstrPos(ins), "no single deciding branch found for the ACKTooMany report")
					continue
				}
				fields, params := sliceOf(p, cond)
				hasN := false
				for par := range params {
					if par.Parent() == fn {
						hasN = true
					}
				}
				missing := ""
				if !fields[read] {
					missing += " the read position (queuePage.read)"
				}
				if !fields[tail] {
					missing += " the tail (queuePage.tail)"
				}
				if !hasN {
					missing += " the number of events to ACK"
				}
				if missing == "" {
					rep.OK("ACK-BOUND", key, p.InstrPos(ins), "decided by n, read position and tail")
				} else {
					rep.Bad("ACK-BOUND", key, p.InstrPos(ins), "the condition that reports ACKTooMany cannot depend on:"+missing+" — an ACK of more events than are pending can pass (e.g. after a partial ACK of the head page) and stores a read position beyond the tail")
				}
			}
		}
	}
	if n == 0 {
		rep.Unknown("ACK-BOUND", "anchor", "", "no site reporting ACKTooMany found (anchor lost)")
	}
}
