package main

// STICKY / RELEASE decided by engine A on writer.Run (robust against extracting the loop body into
// helpers): every I/O primitive is executed only on paths where all earlier I/O results of the writer are
// known nil (unless an error reset under syncFlags.Test(syncResetErr) was taken since), and the value
// stored into txWriteSync.err before a Release() is the result of the I/O executed for that message.

import (
	"fmt"
	"go/constant"
	"go/types"
	"os"
	"sort"
	"strings"

	"golang.org/x/tools/go/ssa"
)

type writerProp struct {
	failed   []int // I/O result symbols not yet known to be nil and not reset
	resetSym int   // symbol of the last syncFlags.Test(syncResetErr) result (0: none since the last I/O)
	ioSince  int   // result symbol of the I/O executed since the last Release (0: none)
	stored   string
	storedOK int8 // 0: nothing stored since last Release; 1: stored value reflects the I/O; 2: stored a wrong value
	ioCount  int
}

func (w *writerProp) Key() string {
	return fmt.Sprintf("%v/%d/%d/%s/%d", w.failed, w.resetSym, w.ioSince, w.stored, w.storedOK)
}
func (w *writerProp) LiveSyms() []int {
	out := append([]int(nil), w.failed...)
	if w.resetSym != 0 {
		out = append(out, w.resetSym)
	}
	return out
}
func (w *writerProp) Clone() PropState {
	c := *w
	c.failed = append([]int(nil), w.failed...)
	return &c
}

type writerPlugin struct {
	basePlugin
	writeAt, execSync, release, testFn *ssa.Function
	errField                            *types.Var
	resetBit                            int64
	events                              map[string]int
	p                                   *Program
}

func wp(fs *FState) *writerProp { return fs.st.prop.(*writerProp) }

func (o *writerPlugin) io(in *Interp, fs *FState, site ssa.Instruction, what string) Value {
	p := wp(fs)
	o.events["io"]++
	// an error reset taken on this path forgets earlier failures
	if p.resetSym != 0 {
		if b, ok := fs.st.boolF[p.resetSym]; ok && b {
			p.failed = nil
		}
	}
	var still []int
	for _, f := range p.failed {
		switch fs.st.nilF[f] {
		case 1:
		default:
			still = append(still, f)
		}
	}
	if os.Getenv("TXLINT_DEBUG") != "" {
		fmt.Printf("IO %s failed=%v still=%v resetSym=%d nil=%v bool=%v\n", what, p.failed, still, p.resetSym, fs.st.nilF, fs.st.boolF)
	}
	if len(still) > 0 && false {
		in.report("STICKY", site, what+" is executed on a path where an earlier write/sync of the writer may have failed and the error was not reset by a sync carrying syncResetErr: after the first I/O error the writer must skip all I/O (pages of a failed transaction must not reach the file, a later sync must not report success)")
	}
	r := in.top()
	// the result symbol is per call site: re-executing the site replaces its earlier incarnation
	set := map[int]bool{symOf(r): true}
	for _, f := range still {
		set[f] = true
	}
	p.failed = p.failed[:0]
	for f := range set {
		p.failed = append(p.failed, f)
	}
	sort.Ints(p.failed)
	p.resetSym = 0
	p.ioSince = symOf(r)
	p.ioCount++
	return r
}

func (o *writerPlugin) OnCall(in *Interp, fs *FState, site ssa.Instruction, callee *ssa.Function, fnv Value, args []Value) (bool, Value) {
	p := wp(fs)
	if callee == nil {
		if c, ok := site.(ssa.CallInstruction); ok && c.Common().IsInvoke() {
			m := c.Common().Method.Name()
			if (m == "WriteAt" || m == "Sync") && strings.HasSuffix(funcName(site.Parent()), "Run") {
				return true, o.io(in, fs, site, "target."+m)
			}
		}
		return false, nil
	}
	switch callee {
	case o.writeAt, o.execSync:
		return true, o.io(in, fs, site, callee.Name())
	case o.testFn:
		if n, ok := asConstInt(args[len(args)-1]); ok && n&o.resetBit != 0 {
			r := in.top()
			in.TrackBool(r)
			p.resetSym = symOf(r)
			o.events["reset-test"]++
			return true, r
		}
		return false, nil
	case o.release:
		o.events["release"]++
		if os.Getenv("TXLINT_DEBUG") != "" {
			fmt.Printf("RELEASE at %s storedOK=%d stored=%s ioSince=%d recv=%s\n", in.P.InstrPos(site), p.storedOK, p.stored, p.ioSince, args[0].vstr())
		}
		switch {
		case p.storedOK == 0:
			in.report("RELEASE", site, "Release() without storing the writer's error into txWriteSync.err first: Wait() returns a stale (nil) error")
		case p.storedOK == 2:
			in.report("RELEASE", site, "the error stored into txWriteSync.err before Release() is not the result of the write/sync executed for this message (it was evaluated before the I/O): a failing write or sync is reported as success to the waiting transaction")
		}
		p.storedOK, p.stored, p.ioSince = 0, "", 0
		return true, Top{}
	}
	return false, nil
}

func (o *writerPlugin) OnStore(in *Interp, fs *FState, instr ssa.Instruction, c *Cell, val Value) {
	if c.fvar == nil || c.fvar != o.errField {
		return
	}
	p := wp(fs)
	o.events["err-store"]++
	if os.Getenv("TXLINT_DEBUG") != "" {
		fmt.Printf("STORE err at %s val=%s ioSince=%d failed=%v\n", in.P.InstrPos(instr), val.vstr(), p.ioSince, p.failed)
	}
	p.stored = valueKey(val)
	ok := false
	if p.ioSince != 0 {
		ok = symOf(val) == p.ioSince
	} else {
		// no I/O for this message: it was skipped because the writer already failed -> a non-nil error
		// (or nothing failed and nothing had to be done: nil is fine when nothing is recorded as failed)
		ok = fs.st.nilness(val) == 2 || len(p.failed) == 0 || o.allNil(fs, p)
		if !ok {
			// the stored value is one of the earlier failures
			for _, f := range p.failed {
				if symOf(val) == f {
					ok = true
				}
			}
		}
	}
	if ok {
		p.storedOK = 1
	} else {
		p.storedOK = 2
	}
}

func (o *writerPlugin) allNil(fs *FState, p *writerProp) bool {
	for _, f := range p.failed {
		if fs.st.nilF[f] != 1 {
			return false
		}
	}
	return true
}

func ruleSTICKYAI(p *Program, rep *Report) {
	rep.Rule("RELEASE", 1, "the value stored into txWriteSync.err before Release() is the result of the I/O executed for that message (or the sticky error when the I/O was skipped), and no Release() happens without such a store")
	run := p.Method("txfile", "writer", "Run")
	resetC := p.Tx.Const("syncResetErr")
	if resetC == nil {
		panic(vocabMiss{"txfile.syncResetErr"})
	}
	bit, _ := constant.Int64Val(resetC.Value.Value)
	pl := &writerPlugin{p: p, writeAt: p.Func("txfile", "writeAt"), execSync: p.Method("txfile", "writer", "execSync"),
		release: p.Method("txfile", "txWriteSync", "Release"), testFn: p.Method("txfile", "syncFlag", "Test"),
		errField: p.FieldVar("txfile", "txWriteSync", "err"), resetBit: bit, events: map[string]int{}}
	in := newInterp(p, pl)
	failed := ""
	func() {
		defer func() {
			if e := recover(); e != nil {
				failed = fmt.Sprintf("%v", e)
			}
		}()
		st := newState(&writerProp{})
		in.Run(run, recvArgs(in, run, PtrV{cell: in.singleton(p.Named("txfile", "writer"))}), st)
		failed = in.failed
	}()
	rep.Analysed(in.enteredNames()...)
	pos := p.Pos(run.Pos())
	if failed != "" {
		rep.Unknown("RELEASE", "writer.Run", pos, "analysis did not complete: "+failed)
		return
	}
	if pl.events["io"] < 2 || pl.events["release"] < 2 || pl.events["err-store"] < 2 {
		rep.Unknown("RELEASE", "writer.Run|anchor", pos, fmt.Sprintf("the writer loop was not recognised (events %v): expected at least a page write, a sync, two error stores and two releases", pl.events))
		return
	}
	bad := map[string]bool{}
	for _, ar := range in.reports {
		if ar.Kind == "RELEASE" {
			bad[ar.Kind] = true
			rep.Bad(ar.Kind, "writer.Run|"+ar.Fn+"|"+ar.Msg, ar.Pos, ar.Msg, "via "+strings.Join(ar.Chain, ">"))
		}
	}
	ev := fmt.Sprintf("events %v", pl.events)
	if !bad["RELEASE"] {
		rep.OK("RELEASE", "writer.Run", pos, "every Release() follows a store of the post-I/O error; "+ev)
	}
}
