package main

import (
	"fmt"
	"go/token"
	"go/types"
	"os"
	"sort"
	"strings"

	"golang.org/x/tools/go/callgraph"
	"golang.org/x/tools/go/callgraph/cha"
	"golang.org/x/tools/go/callgraph/vta"
	"golang.org/x/tools/go/packages"
	"golang.org/x/tools/go/ssa"
	"golang.org/x/tools/go/ssa/ssautil"
)

const modPath = "github.com/elastic/go-txfile"

// Program is the loaded, type-checked and SSA-built repository.
type Program struct {
	Dir      string
	Config   string // e.g. linux/amd64
	Pkgs     []*packages.Package
	Prog     *ssa.Program
	Fset     *token.FileSet
	Tx       *ssa.Package // txfile
	PQ       *ssa.Package // pq
	pqOwners map[*types.Var]string
	byPath   map[string]*ssa.Package

	cgCHA *callgraph.Graph
	cgVTA *callgraph.Graph

	srcFuncs    []*ssa.Function
	effects     *Effects
	fieldOwners map[*types.Var]string
	cheapMemo   map[*ssa.Function]int
	sharedTouch map[*ssa.Function]bool
	callIdx     *callSiteIndex
}

type loadOpts struct {
	dir     string
	goos    string
	goarch  string
	overlay map[string][]byte
}

// loadProgram loads /repo's current working tree. Any load or type error is fatal (exit 2, no verdict).
func loadProgram(o loadOpts) (*Program, error) {
	env := []string{}
	for _, e := range os.Environ() {
		if strings.HasPrefix(e, "GOWORK=") || strings.HasPrefix(e, "GOFLAGS=") || strings.HasPrefix(e, "GOOS=") ||
			strings.HasPrefix(e, "GOARCH=") || strings.HasPrefix(e, "CGO_ENABLED=") {
			continue
		}
		env = append(env, e)
	}
	env = append(env, "GOFLAGS=-mod=mod", "GOPROXY=off", "GOSUMDB=off", "GOWORK=off", "GOTOOLCHAIN=local", "CGO_ENABLED=0")
	cfgName := "linux/amd64"
	if o.goos != "" {
		env = append(env, "GOOS="+o.goos, "GOARCH="+o.goarch)
		cfgName = o.goos + "/" + o.goarch
	}
	cfg := &packages.Config{
		Mode:    packages.LoadAllSyntax,
		Dir:     o.dir,
		Env:     env,
		Overlay: o.overlay,
	}
	pkgs, err := packages.Load(cfg, ".", "./pq", "./internal/...", "./txerr")
	if err != nil {
		return nil, err
	}
	if len(pkgs) == 0 {
		return nil, fmt.Errorf("no packages loaded from %s", o.dir)
	}
	var errs []string
	packages.Visit(pkgs, nil, func(p *packages.Package) {
		for _, e := range p.Errors {
			errs = append(errs, e.Error())
		}
	})
	if len(errs) > 0 {
		return nil, fmt.Errorf("load/type errors:\n  %s", strings.Join(errs, "\n  "))
	}
	prog, _ := ssautil.AllPackages(pkgs, ssa.InstantiateGenerics)
	prog.Build()
	p := &Program{Dir: o.dir, Config: cfgName, Pkgs: pkgs, Prog: prog, Fset: prog.Fset, byPath: map[string]*ssa.Package{}}
	for _, sp := range prog.AllPackages() {
		p.byPath[sp.Pkg.Path()] = sp
	}
	p.Tx = p.byPath[modPath]
	p.PQ = p.byPath[modPath+"/pq"]
	if p.Tx == nil || p.PQ == nil {
		return nil, fmt.Errorf("packages %s and %s/pq not both found", modPath, modPath)
	}
	// all source functions of the repo (non-test), incl. anonymous functions and methods
	all := ssautil.AllFunctions(prog)
	for fn := range all {
		if p.InRepo(fn) && fn.Synthetic == "" && len(fn.Blocks) > 0 {
			p.srcFuncs = append(p.srcFuncs, fn)
		}
	}
	sort.Slice(p.srcFuncs, func(i, j int) bool { return p.srcFuncs[i].String() < p.srcFuncs[j].String() })
	return p, nil
}

func (p *Program) SrcFuncs() []*ssa.Function { return p.srcFuncs }

// fnPkgPath returns the import path of the package a function belongs to ("" if unknown).
func fnPkgPath(fn *ssa.Function) string {
	if fn == nil {
		return ""
	}
	if fn.Pkg != nil {
		return fn.Pkg.Pkg.Path()
	}
	if fn.Parent() != nil {
		return fnPkgPath(fn.Parent())
	}
	if o := fn.Object(); o != nil && o.Pkg() != nil {
		return o.Pkg().Path()
	}
	return ""
}

func (p *Program) InRepo(fn *ssa.Function) bool {
	pp := fnPkgPath(fn)
	return pp == modPath || strings.HasPrefix(pp, modPath+"/")
}

func (p *Program) CHA() *callgraph.Graph {
	if p.cgCHA == nil {
		p.cgCHA = cha.CallGraph(p.Prog)
	}
	return p.cgCHA
}

func (p *Program) VTA() *callgraph.Graph {
	if p.cgVTA == nil {
		p.cgVTA = vta.CallGraph(ssautil.AllFunctions(p.Prog), p.CHA())
	}
	return p.cgVTA
}

func (p *Program) Pos(pos token.Pos) string {
	if !pos.IsValid() {
		return "-"
	}
	ps := p.Fset.Position(pos)
	f := ps.Filename
	if strings.HasPrefix(f, p.Dir+"/") {
		f = f[len(p.Dir)+1:]
	}
	return fmt.Sprintf("%s:%d", f, ps.Line)
}

func (p *Program) InstrPos(in ssa.Instruction) string {
	if in == nil {
		return "-"
	}
	if in.Pos().IsValid() {
		return p.Pos(in.Pos())
	}
	// fall back to an operand or the enclosing function
	if v, ok := in.(ssa.Value); ok {
		_ = v
	}
	for _, op := range in.Operands(nil) {
		if op != nil && *op != nil && (*op).Pos().IsValid() {
			return p.Pos((*op).Pos())
		}
	}
	if in.Parent() != nil {
		return p.Pos(in.Parent().Pos()) + "(fn)"
	}
	return "-"
}

// ---- vocabulary lookups: every rule names program entities through these; a miss is "undecided" ----

type vocabMiss struct{ what string }

func (v vocabMiss) Error() string { return "vocabulary item does not resolve: " + v.what }

func (p *Program) pkg(short string) *ssa.Package {
	switch short {
	case "txfile", "":
		return p.Tx
	case "pq":
		return p.PQ
	}
	return p.byPath[modPath+"/"+short]
}

// Func resolves a package-level function, e.g. Func("txfile","Open").
func (p *Program) Func(pkg, name string) *ssa.Function {
	sp := p.pkg(pkg)
	if sp == nil {
		panic(vocabMiss{pkg})
	}
	f := sp.Func(name)
	if f == nil {
		panic(vocabMiss{pkg + "." + name})
	}
	return f
}

// Method resolves a method on *T (or T), e.g. Method("txfile","writer","Schedule").
func (p *Program) Method(pkg, typ, name string) *ssa.Function {
	f := p.MethodOpt(pkg, typ, name)
	if f == nil {
		panic(vocabMiss{pkg + "." + typ + "." + name})
	}
	return f
}

func (p *Program) MethodOpt(pkg, typ, name string) *ssa.Function {
	sp := p.pkg(pkg)
	if sp == nil {
		return nil
	}
	t := sp.Type(typ)
	if t == nil {
		return nil
	}
	// value receiver first: looking a value-receiver method up on *T yields a synthetic wrapper
	for _, T := range []types.Type{t.Type(), types.NewPointer(t.Type())} {
		if sel := p.Prog.MethodSets.MethodSet(T).Lookup(sp.Pkg, name); sel != nil {
			return p.Prog.MethodValue(sel)
		}
	}
	return nil
}

func (p *Program) Named(pkg, typ string) *types.Named {
	sp := p.pkg(pkg)
	if sp == nil {
		panic(vocabMiss{pkg})
	}
	t := sp.Type(typ)
	if t == nil {
		panic(vocabMiss{pkg + "." + typ})
	}
	n, ok := t.Type().(*types.Named)
	if !ok {
		panic(vocabMiss{pkg + "." + typ + " (not a named type)"})
	}
	return n
}

func (p *Program) Struct(pkg, typ string) *types.Struct {
	s, ok := p.Named(pkg, typ).Underlying().(*types.Struct)
	if !ok {
		panic(vocabMiss{pkg + "." + typ + " (not a struct)"})
	}
	return s
}

// FieldVar resolves a struct field object.
func (p *Program) FieldVar(pkg, typ, field string) *types.Var {
	s := p.Struct(pkg, typ)
	for i := 0; i < s.NumFields(); i++ {
		if s.Field(i).Name() == field {
			return s.Field(i)
		}
	}
	panic(vocabMiss{pkg + "." + typ + "." + field})
}

// Closures returns the anonymous functions directly nested in fn, in source order.
func closuresOf(fn *ssa.Function) []*ssa.Function { return fn.AnonFuncs }

// fieldOfAddr returns the field object a FieldAddr / Field instruction selects.
func fieldOfAddr(fa *ssa.FieldAddr) *types.Var {
	t := fa.X.Type().Underlying().(*types.Pointer).Elem().Underlying().(*types.Struct)
	return t.Field(fa.Field)
}

func fieldOfField(f *ssa.Field) *types.Var {
	t := f.X.Type().Underlying().(*types.Struct)
	return t.Field(f.Field)
}

// funcName gives a stable readable name: pkg-qualified relative to the module.
func funcName(fn *ssa.Function) string {
	if fn == nil {
		return "<nil>"
	}
	s := fn.String()
	s = strings.ReplaceAll(s, modPath+"/", "")
	s = strings.ReplaceAll(s, modPath+".", "txfile.")
	return s
}

// fieldOwner returns the name of the txfile struct type that declares field f ("" if none).
func fieldOwner(p *Program, f *types.Var) string {
	if p.fieldOwners == nil {
		p.fieldOwners = map[*types.Var]string{}
		scope := p.Tx.Pkg.Scope()
		for _, name := range scope.Names() {
			tn, ok := scope.Lookup(name).(*types.TypeName)
			if !ok {
				continue
			}
			st, ok := tn.Type().Underlying().(*types.Struct)
			if !ok {
				continue
			}
			for i := 0; i < st.NumFields(); i++ {
				if _, dup := p.fieldOwners[st.Field(i)]; !dup {
					p.fieldOwners[st.Field(i)] = name
				}
			}
		}
	}
	return p.fieldOwners[f]
}
