package main

// CALLBACK-ARG (C17), FLOCK-OWNER (C18), CONFINEMENT (C13.2).

import (
	"fmt"
	"go/token"
	"go/types"
	"sort"
	"strings"

	"golang.org/x/tools/go/ssa"
)

func ruleCALLBACKARG(p *Program, rep *Report) {
	rep.Rule("CALLBACK-ARG", 2, "the Flushed callback is invoked with the event count read before the flush transaction (not the counter after its reset); the ACKed callback with the ACK's own n and the length of the freed-page plan")
	// Flushed: wherever the callback is invoked, its argument is computed from the active event counter, and
	// every read of the counter that feeds it happens before anything on the flush path can have reset it
	cbF := p.FieldVar("pq", "Writer", "flushCB")
	active := p.FieldVar("pq", "writeState", "activeEventCount")
	pqFns := map[*ssa.Function]bool{}
	for _, fn := range p.SrcFuncs() {
		if fnPkgPath(fn) == modPath+"/pq" {
			pqFns[fn] = true
		}
	}
	effs := p.Effects()
	mayWrite := func(ins ssa.Instruction) bool {
		if st, ok := ins.(*ssa.Store); ok && addrField(st.Addr) == active {
			return true
		}
		if c, ok := ins.(ssa.CallInstruction); ok {
			if sc := c.Common().StaticCallee(); sc != nil && p.InRepo(sc) {
				if e := effs.Of(sc); e != nil && e.mods[active] {
					return true
				}
			}
		}
		return false
	}
	found := false
	for fn := range pqFns {
		for _, b := range fn.Blocks {
			for _, ins := range b.Instrs {
				c, ok := ins.(*ssa.Call)
				if !ok || c.Common().IsInvoke() || c.Common().StaticCallee() != nil || loadedField(c.Common().Value) != cbF || len(c.Common().Args) < 1 {
					continue
				}
				found = true
				rep.Analysed(funcName(fn))
				key := "Writer|Flushed-arg"
				sl := &slicer{p: p, fields: map[*types.Var]bool{}, seen: map[sliceKey]bool{}, dataOnly: true, within: pqFns}
				sl.walk(c.Common().Args[0], 0, nil, 0)
				var loads []*ssa.UnOp
				for _, l := range sl.loads {
					if loadedField(l) == active {
						loads = append(loads, l)
					}
				}
				if len(loads) == 0 {
					rep.Bad("CALLBACK-ARG", key, p.InstrPos(c), "the Flushed callback is not called with a value read from the active event counter")
					continue
				}
				stale := ""
				for _, l := range loads {
					lb := l.Block()
					for _, b2 := range l.Parent().Blocks {
						for j, w := range b2.Instrs {
							if !mayWrite(w) {
								continue
							}
							if (b2 == lb && j < instrIndex(lb, l)) || (b2 != lb && reachableAvoiding(b2, nil, nil)[lb]) {
								stale = p.InstrPos(w)
							}
						}
					}
				}
				if stale == "" {
					rep.OK("CALLBACK-ARG", key, p.InstrPos(c), "argument is the event count read before the flush can reset it")
				} else {
					rep.Bad("CALLBACK-ARG", key, p.InstrPos(c), "the Flushed callback is called with the event counter read after it may have been changed on the flush path (at "+stale+"): it reports the wrong number of flushed events")
				}
			}
		}
	}
	if !found {
		rep.Bad("CALLBACK-ARG", "Writer|Flushed-arg", "", "no function of package pq invokes the Flushed callback any more")
	}
	// ACKed: wherever the callback is invoked (cleanup itself or its caller), its first argument is computed from
	// the ACK's own event count (a parameter of the ACK path) and its second from the free plan (ackState.free)
	cbA := p.FieldVar("pq", "acker", "ackCB")
	free := p.FieldVar("pq", "ackState", "free")
	found = false
	for _, fn := range p.SrcFuncs() {
		if fnPkgPath(fn) != modPath+"/pq" {
			continue
		}
		for _, b := range fn.Blocks {
			for _, ins := range b.Instrs {
				c, ok := ins.(*ssa.Call)
				if !ok || c.Common().IsInvoke() || c.Common().StaticCallee() != nil || loadedField(c.Common().Value) != cbA || len(c.Common().Args) < 2 {
					continue
				}
				found = true
				rep.Analysed(funcName(fn))
				key := "acker|ACKed-args"
				_, params := sliceOf(p, c.Common().Args[0])
				fromN := false
				for par := range params {
					if b, ok := par.Type().Underlying().(*types.Basic); ok && b.Info()&types.IsInteger != 0 && par.Parent().Signature.Recv() != nil && isNamed(par.Parent().Signature.Recv().Type(), modPath+"/pq", "acker") {
						fromN = true
					}
				}
				// the page count may be handed down as a parameter (callback invoked in a helper): follow
				// parameters to the call sites inside package pq
				sl1 := &slicer{p: p, fields: map[*types.Var]bool{}, seen: map[sliceKey]bool{}, within: pqFns}
				sl1.walk(c.Common().Args[1], 0, nil, 0)
				f1 := sl1.fields
				if !fromN {
					sl0 := &slicer{p: p, fields: map[*types.Var]bool{}, seen: map[sliceKey]bool{}, within: pqFns}
					sl0.walk(c.Common().Args[0], 0, nil, 0)
					for k := range sl0.seen {
						if par, isPar := k.v.(*ssa.Parameter); isPar {
							if bt, isB := par.Type().Underlying().(*types.Basic); isB && bt.Info()&types.IsInteger != 0 && par.Parent().Signature.Recv() != nil && isNamed(par.Parent().Signature.Recv().Type(), modPath+"/pq", "acker") {
								fromN = true
							}
						}
					}
				}
				if fromN && f1[free] {
					rep.OK("CALLBACK-ARG", key, p.InstrPos(c), "ACKed(n, len(plan))")
				} else {
					rep.Bad("CALLBACK-ARG", key, p.InstrPos(c), "the ACKed callback is not called with the ACK's own event count and the number of pages of its free plan")
				}
			}
		}
	}
	if !found {
		rep.Bad("CALLBACK-ARG", "acker|ACKed-args", "", "no function of package pq invokes the ACKed callback any more")
	}
}

func ruleFLOCKOWNER(p *Program, rep *Report) {
	rep.Rule("FLOCK-OWNER", 2, "the path lock object is created and dropped only by osfs.File.doLock / doUnlock, which Lock / Unlock wrap")
	osfs := p.pkg("internal/vfs/osfs")
	if osfs == nil {
		panic(vocabMiss{"internal/vfs/osfs"})
	}
	doLock := p.Method("internal/vfs/osfs", "File", "doLock")
	doUnlock := p.Method("internal/vfs/osfs", "File", "doUnlock")
	ls := p.Struct("internal/vfs/osfs", "lockState")
	var flockField *types.Var
	for i := 0; i < ls.NumFields(); i++ {
		if ls.Field(i).Name() == "Flock" {
			flockField = ls.Field(i)
		}
	}
	if flockField == nil {
		panic(vocabMiss{"osfs.lockState.Flock"})
	}
	for _, fn := range p.SrcFuncs() {
		for _, b := range fn.Blocks {
			for _, ins := range b.Instrs {
				if st, ok := ins.(*ssa.Store); ok && addrField(st.Addr) == flockField {
					key := funcName(fn) + "|lockState.Flock="
					if fn == doLock || fn == doUnlock {
						rep.OK("FLOCK-OWNER", key, p.InstrPos(ins), "")
					} else {
						rep.Bad("FLOCK-OWNER", key, p.InstrPos(ins), "the path lock object is replaced outside doLock/doUnlock: the lock state no longer reflects the flock")
					}
				}
				if c, ok := ins.(ssa.CallInstruction); ok {
					if sc := c.Common().StaticCallee(); sc != nil && sc.Pkg != nil && sc.Pkg.Pkg.Path() == "github.com/gofrs/flock" && strings.HasPrefix(sc.Name(), "New") {
						key := funcName(fn) + "|flock.New"
						if fn == doLock {
							rep.OK("FLOCK-OWNER", key, p.InstrPos(ins), "")
						} else {
							rep.Bad("FLOCK-OWNER", key, p.InstrPos(ins), "a path lock is created outside osfs.File.doLock")
						}
					}
				}
			}
		}
	}
	// Lock/Unlock wrap them
	for _, pair := range [][2]string{{"Lock", "doLock"}, {"Unlock", "doUnlock"}} {
		outer := p.Method("internal/vfs/osfs", "File", pair[0])
		inner := p.Method("internal/vfs/osfs", "File", pair[1])
		if len(callsIn(outer, func(c *ssa.Function, _ ssa.CallInstruction) bool { return c == inner })) > 0 {
			rep.OK("FLOCK-OWNER", "osfs.File."+pair[0], p.Pos(outer.Pos()), "calls "+pair[1])
		} else {
			rep.Bad("FLOCK-OWNER", "osfs.File."+pair[0], p.Pos(outer.Pos()), pair[0]+" no longer calls "+pair[1])
		}
	}
}

// typeReach: named pq struct types reachable from t through fields (pointers, slices, arrays, maps, structs).
func typeReach(t types.Type, pkgPath string, out map[*types.TypeName]bool, seen map[types.Type]bool) {
	if seen[t] {
		return
	}
	seen[t] = true
	switch u := t.(type) {
	case *types.Named:
		if u.Obj().Pkg() != nil && u.Obj().Pkg().Path() == pkgPath {
			if _, ok := u.Underlying().(*types.Struct); ok {
				out[u.Obj()] = true
			}
			typeReach(u.Underlying(), pkgPath, out, seen)
		}
	case *types.Pointer:
		typeReach(u.Elem(), pkgPath, out, seen)
	case *types.Slice:
		typeReach(u.Elem(), pkgPath, out, seen)
	case *types.Array:
		typeReach(u.Elem(), pkgPath, out, seen)
	case *types.Map:
		typeReach(u.Key(), pkgPath, out, seen)
		typeReach(u.Elem(), pkgPath, out, seen)
	case *types.Struct:
		for i := 0; i < u.NumFields(); i++ {
			typeReach(u.Field(i).Type(), pkgPath, out, seen)
		}
	}
}

func ruleCONFINEMENT(p *Program, rep *Report) {
	rep.Rule("CONFINEMENT", 4, "the queue's roles (Writer, Reader, acker) share no mutable memory: their object graphs (type reachability through fields) only meet in types whose fields are never stored to by any role function, and package-level variables of pq are never written after init")
	pqPath := modPath + "/pq"
	roles := []string{"Writer", "Reader", "acker"}
	reach := map[string]map[*types.TypeName]bool{}
	for _, r := range roles {
		m := map[*types.TypeName]bool{}
		typeReach(p.Named("pq", r), pqPath, m, map[types.Type]bool{})
		reach[r] = m
	}
	// role functions: everything reachable (static calls + closures) from the role's methods
	roleFns := map[string]map[*ssa.Function]bool{}
	for _, r := range roles {
		var roots []*ssa.Function
		for _, fn := range methodsOf(p, "pq", r, false) {
			roots = append(roots, fn)
		}
		roleFns[r] = staticReach(p, roots...)
	}
	storesTo := func(fns map[*ssa.Function]bool, tn *types.TypeName) []string {
		var out []string
		st, _ := tn.Type().Underlying().(*types.Struct)
		if st == nil {
			return nil
		}
		fields := map[*types.Var]bool{}
		for i := 0; i < st.NumFields(); i++ {
			fields[st.Field(i)] = true
		}
		for fn := range fns {
			for _, b := range fn.Blocks {
				for _, ins := range b.Instrs {
					if s, ok := ins.(*ssa.Store); ok {
						if fa, ok := s.Addr.(*ssa.FieldAddr); ok && fields[fieldOfAddr(fa)] {
							out = append(out, fmt.Sprintf("%s.%s in %s (%s)", tn.Name(), fieldOfAddr(fa).Name(), funcName(fn), p.InstrPos(ins)))
						}
					}
				}
			}
		}
		sort.Strings(out)
		return out
	}
	for i := 0; i < len(roles); i++ {
		for j := i + 1; j < len(roles); j++ {
			a, b := roles[i], roles[j]
			key := a + "∩" + b
			var shared []*types.TypeName
			for tn := range reach[a] {
				if reach[b][tn] {
					shared = append(shared, tn)
				}
			}
			sort.Slice(shared, func(x, y int) bool { return shared[x].Name() < shared[y].Name() })
			var names, problems []string
			for _, tn := range shared {
				names = append(names, tn.Name())
				if tn.Name() == a || tn.Name() == b {
					problems = append(problems, "role object "+tn.Name()+" is reachable from the other role's object graph")
					continue
				}
				for _, r := range []string{a, b} {
					if s := storesTo(roleFns[r], tn); len(s) > 0 {
						problems = append(problems, "shared type "+tn.Name()+" is written by the "+r+" role: "+strings.Join(s, "; "))
					}
				}
			}
			if len(problems) > 0 {
				rep.Bad("CONFINEMENT", key, "", "the "+a+" and "+b+" roles share mutable memory: "+strings.Join(problems, " | "))
			} else {
				rep.OK("CONFINEMENT", key, "", "object graphs meet only in {"+strings.Join(names, ",")+"}, none of which is written by a role function")
			}
		}
	}
	// package-level variables
	nGlob := 0
	for _, m := range p.PQ.Members {
		gv, ok := m.(*ssa.Global)
		if !ok {
			continue
		}
		nGlob++
		bad := false
		if gv.Referrers() != nil {
			for _, r := range *gv.Referrers() {
				if st, ok := r.(*ssa.Store); ok && st.Addr == ssa.Value(gv) && r.Parent().Name() != "init" {
					bad = true
					rep.Bad("CONFINEMENT", "global|"+gv.Name(), p.InstrPos(r), "package-level variable pq."+gv.Name()+" is written in "+funcName(r.Parent())+": shared mutable state between queue roles")
				}
			}
		}
		_ = bad
	}
	rep.OK("CONFINEMENT", "globals", "", fmt.Sprintf("%d package-level variable(s) of pq, none written outside init", nGlob))
	_ = token.ADD
}

// ruleWAKEUP (C09): lost-wakeup discipline of the in-process lock.  Any number of readers can wait on
// lock.shared, so every wake-up of it must be a Broadcast and clearing pendingSet must be followed by one;
// releasing the last shared lock must wake the (single) exclusive waiter.
func ruleWAKEUP(p *Program, rep *Report) {
	rep.Rule("WAKEUP", 3, "lock.shared (many possible waiters) is only ever woken with Broadcast, and the release of Pending reaches such a Broadcast on every path; the release of a Shared lock reaches a Signal/Broadcast of lock.exclusive")
	shared := p.FieldVar("txfile", "lock", "shared")
	excl := p.FieldVar("txfile", "lock", "exclusive")
	condCall := func(c ssa.CallInstruction) (string, *types.Var) {
		sc := c.Common().StaticCallee()
		if sc == nil || !(isSyncMethod(sc, "Cond", "Signal") || isSyncMethod(sc, "Cond", "Broadcast")) {
			return "", nil
		}
		return sc.Name(), loadedField(c.Common().Args[0])
	}
	nWake := 0
	for _, fn := range p.SrcFuncs() {
		if fnPkgPath(fn) != modPath {
			continue
		}
		for _, b := range fn.Blocks {
			for _, ins := range b.Instrs {
				c, ok := ins.(ssa.CallInstruction)
				if !ok {
					continue
				}
				kind, f := condCall(c)
				if f != shared {
					continue
				}
				nWake++
				key := funcName(fn) + "|shared." + kind
				if kind == "Broadcast" {
					rep.OK("WAKEUP", key, p.InstrPos(ins), "all waiting readers are woken")
				} else {
					rep.Bad("WAKEUP", key, p.InstrPos(ins), "lock.shared is woken with Signal: any number of BeginReadonly callers can wait on it while a commit holds Pending, only one of them is woken and the others stay blocked although the lock is idle")
				}
			}
		}
	}
	reaches := func(root *ssa.Function, cond *types.Var, kinds ...string) bool {
		for f := range staticReach(p, root) {
			for _, b := range f.Blocks {
				for _, ins := range b.Instrs {
					if c, ok := ins.(ssa.CallInstruction); ok {
						kind, fv := condCall(c)
						if fv == cond && nameIn(kind, kinds...) {
							return true
						}
					}
				}
			}
		}
		return false
	}
	pu := p.Method("txfile", "pendingLock", "Unlock")
	rep.Analysed(funcName(pu))
	if reaches(pu, shared, "Broadcast") {
		rep.OK("WAKEUP", "pendingLock.Unlock|wakes-readers", p.Pos(pu.Pos()), "")
	} else {
		rep.Bad("WAKEUP", "pendingLock.Unlock|wakes-readers", p.Pos(pu.Pos()), "releasing Pending does not Broadcast lock.shared: readers blocked by the commit are never (all) woken")
	}
	su := p.Method("txfile", "sharedLock", "Unlock")
	rep.Analysed(funcName(su))
	if reaches(su, excl, "Signal", "Broadcast") {
		rep.OK("WAKEUP", "sharedLock.Unlock|wakes-exclusive", p.Pos(su.Pos()), "")
	} else {
		rep.Bad("WAKEUP", "sharedLock.Unlock|wakes-exclusive", p.Pos(su.Pos()), "releasing the last Shared lock does not wake lock.exclusive: a commit waiting for readers hangs forever")
	}
}

// ruleFLOCKNOUNLINK (C18): a lock file must never be unlinked / renamed by the locking code: a waiter that
// already opened it would lock the orphaned inode while a later opener locks a fresh file — two owners.
func ruleFLOCKNOUNLINK(p *Program, rep *Report) {
	rep.Rule("FLOCK-NO-UNLINK", 2, "no function of the path-lock implementation (reachable from osfs.File.Lock / Unlock) removes or renames a file: flock mutual exclusion is per inode, unlinking the lock file while it can still be locked lets two openers hold 'the' lock")
	roots := []*ssa.Function{p.Method("internal/vfs/osfs", "File", "Lock"), p.Method("internal/vfs/osfs", "File", "Unlock")}
	for _, fn := range sortedFns(staticReach(p, roots...)) {
		rep.Analysed(funcName(fn))
		bad := false
		for _, b := range fn.Blocks {
			for _, ins := range b.Instrs {
				c, ok := ins.(ssa.CallInstruction)
				if !ok {
					continue
				}
				sc := c.Common().StaticCallee()
				if sc == nil || sc.Pkg == nil {
					continue
				}
				pkg, name := sc.Pkg.Pkg.Path(), sc.Name()
				if (pkg == "os" && nameIn(name, "Remove", "RemoveAll", "Rename")) || (pkg == "syscall" && nameIn(name, "Unlink", "Unlinkat", "Rename", "Renameat")) ||
					(pkg == "golang.org/x/sys/unix" && nameIn(name, "Unlink", "Unlinkat", "Rename", "Renameat")) {
					bad = true
					rep.Bad("FLOCK-NO-UNLINK", funcName(fn)+"|"+pkg+"."+name, p.InstrPos(ins), "the path-lock code calls "+pkg+"."+name+": removing or renaming the lock file while another process/File may already have it open breaks the exclusivity of the lock (two Files can be open on one path)")
				}
			}
		}
		if !bad {
			rep.OK("FLOCK-NO-UNLINK", funcName(fn), p.Pos(fn.Pos()), "no unlink/rename")
		}
	}
}
