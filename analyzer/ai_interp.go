package main

// Engine A: interprocedural abstract interpreter with property simulation (ESP style).
// The abstract state is a set of disjuncts (property state, value facts); disjuncts with equal
// merge key are joined.  See DESIGN.md §2.1 / §2.9.

import (
	"fmt"
	"go/constant"
	"go/token"
	"go/types"
	"os"
	"sort"
	"strings"

	"golang.org/x/tools/go/ssa"
)

// ---- per-disjunct state ----

type PropState interface {
	Key() string
	Clone() PropState
}

type noProp struct{}

func (noProp) Key() string        { return "" }
func (noProp) Clone() PropState   { return noProp{} }

type State struct {
	prop  PropState
	heap  map[*Cell]Value
	nilF  map[int]int8 // sym -> 1 nil, 2 nonnil
	boolF map[int]bool
	dead  bool
}

func newState(p PropState) *State {
	return &State{prop: p, heap: map[*Cell]Value{}, nilF: map[int]int8{}, boolF: map[int]bool{}}
}

func (s *State) clone() *State {
	n := &State{prop: s.prop.Clone(), heap: make(map[*Cell]Value, len(s.heap)), nilF: make(map[int]int8, len(s.nilF)), boolF: make(map[int]bool, len(s.boolF))}
	for k, v := range s.heap {
		n.heap[k] = v
	}
	for k, v := range s.nilF {
		n.nilF[k] = v
	}
	for k, v := range s.boolF {
		n.boolF[k] = v
	}
	return n
}

type relKind int

const (
	relIsNil relKind = iota
	relNotNil
	relNot
	relEqConst // bool sym == (value sym == const)
)

type rel struct {
	kind relKind
	of   int
}

// nilness: 0 unknown, 1 nil, 2 nonnil
func (s *State) nilness(v Value) int8 {
	switch x := v.(type) {
	case NilV:
		return 1
	case ClosureV, NonNilV, IfaceV:
		return 2
	case PtrV:
		if x.sym == 0 {
			return 2
		}
		return s.nilF[x.sym]
	case Top:
		return s.nilF[x.sym]
	}
	return 0
}

func (s *State) boolOf(v Value) (bool, bool) {
	switch x := v.(type) {
	case ConstV:
		if x.c.Kind() == constant.Bool {
			return constant.BoolVal(x.c), true
		}
	case Top:
		b, ok := s.boolF[x.sym]
		return b, ok
	}
	return false, false
}

// ---- frames ----

type deferRec struct {
	call *ssa.Defer
	fn   Value // callee value for dynamic calls (nil for static)
	args []Value
}

type FState struct {
	st     *State
	env    map[ssa.Value]Value
	defers []deferRec
}

func (f *FState) clone() *FState {
	n := &FState{st: f.st.clone(), env: make(map[ssa.Value]Value, len(f.env)), defers: append([]deferRec(nil), f.defers...)}
	for k, v := range f.env {
		n.env[k] = v
	}
	return n
}

type Exit struct {
	st  *State
	ret Value
}

// ---- plugin ----

type Plugin interface {
	// OnCall is consulted before a call is interpreted. If handled, result is used as the call result
	// and the callee is not entered.  callee is nil for unresolved dynamic calls.
	OnCall(in *Interp, fs *FState, site ssa.Instruction, callee *ssa.Function, recvOrFn Value, args []Value) (handled bool, result Value)
	OnNilDeref(in *Interp, fs *FState, instr ssa.Instruction)
	OnStore(in *Interp, fs *FState, instr ssa.Instruction, cell *Cell, v Value)
	OnLoad(in *Interp, fs *FState, instr ssa.Instruction, cell *Cell)
}

type basePlugin struct{}

func (basePlugin) OnCall(*Interp, *FState, ssa.Instruction, *ssa.Function, Value, []Value) (bool, Value) {
	return false, nil
}
func (basePlugin) OnNilDeref(*Interp, *FState, ssa.Instruction)              {}
func (basePlugin) OnStore(*Interp, *FState, ssa.Instruction, *Cell, Value)   {}
func (basePlugin) OnLoad(*Interp, *FState, ssa.Instruction, *Cell)           {}

type aiReport struct {
	Kind  string
	Msg   string
	Pos   string
	Fn    string // function containing the instruction
	Chain []string
	Instr ssa.Instruction
}

type Interp struct {
	P      *Program
	prog   *ssa.Program
	plugin Plugin

	stack []*ssa.Function
	ctx   []int

	reports []aiReport
	repSeen map[string]bool

	cellOf     map[string]*Cell // singleton objects by type
	globals    map[*ssa.Global]*Cell
	budget     int
	calls      map[string]int
	symTab     map[string]int
	cellTab    map[string]*Cell
	symRel     map[int]rel
	symConst   map[int]constRel
	isJoinSym  map[int]bool
	symCounter int
	cellCount  int
	siteIDs    map[ssa.Instruction]int
	fnVals     map[*ssa.Function][]ssa.Value
	entered    map[*ssa.Function]bool // every function interpreted at least once

	cur    ssa.Instruction // instruction being executed (for naming unknowns)
	curSt  *State
	subIdx int

	Trace   func(format string, a ...interface{})
	failed  string // analysis failure (budget, visit limit): verdicts become undecided
	// NoEnter: callees that must not be entered (treated as opaque with unknown result)
	NoEnter map[*ssa.Function]bool
	// Relevant: if non-nil, only these callees are entered; the others are summarised by their
	// field-based mod set (havoc) and reported to the plug-in through OnSkip.
	Relevant     map[*ssa.Function]bool
	OnSkip       func(in *Interp, fs *FState, site ssa.Instruction, callee *ssa.Function)
	// trackedBool: plain boolean symbols a plug-in wants branch facts for
	trackedBool map[int]bool
	// taint: symbols whose value derives from a plug-in chosen source (e.g. File.metaActive)
	taint map[int]bool
	// OnLearnNil lets a plug-in move knowledge about an error symbol into its property state
	OnLearnNil func(st *State, sym int, isNil bool)
	cellsByField map[*types.Var][]*Cell
	skipped      map[*ssa.Function]bool
}

var interpBudget = 400000
var traceFn = os.Getenv("TRACEFN")

type constRel struct {
	of  int
	val string
	eq  bool
}

func newInterp(p *Program, pl Plugin) *Interp {
	return &Interp{P: p, prog: p.Prog, plugin: pl, repSeen: map[string]bool{}, cellOf: map[string]*Cell{},
		globals: map[*ssa.Global]*Cell{}, budget: interpBudget, calls: map[string]int{}, symTab: map[string]int{},
		cellTab: map[string]*Cell{}, symRel: map[int]rel{}, symConst: map[int]constRel{}, isJoinSym: map[int]bool{},
		siteIDs: map[ssa.Instruction]int{}, fnVals: map[*ssa.Function][]ssa.Value{}, entered: map[*ssa.Function]bool{},
		NoEnter: map[*ssa.Function]bool{}, cellsByField: map[*types.Var][]*Cell{}, skipped: map[*ssa.Function]bool{}}
}

func (in *Interp) newCell(name string, t types.Type, lazy bool) *Cell {
	in.cellCount++
	return &Cell{id: in.cellCount, name: name, typ: t, kids: map[string]*Cell{}, lazy: lazy}
}

func (in *Interp) kid(c *Cell, key string, t types.Type) *Cell {
	if k, ok := c.kids[key]; ok {
		return k
	}
	in.cellCount++
	k := &Cell{id: in.cellCount, name: c.name + "." + key, typ: t, parent: c, key: key, kids: map[string]*Cell{}, lazy: c.lazy, local: c.local}
	c.kids[key] = k
	c.kidOrd = append(c.kidOrd, k)
	if st, ok := c.typ.Underlying().(*types.Struct); ok {
		for i := 0; i < st.NumFields(); i++ {
			if st.Field(i).Name() == key {
				k.fvar = st.Field(i)
				in.cellsByField[k.fvar] = append(in.cellsByField[k.fvar], k)
				break
			}
		}
	}
	return k
}

// fieldCell walks a dotted path of struct fields below c.
func (in *Interp) fieldCell(c *Cell, path string) *Cell {
	for _, name := range strings.Split(path, ".") {
		st, ok := c.typ.Underlying().(*types.Struct)
		if !ok {
			panic(vocabMiss{"field path " + path + " below " + c.name})
		}
		found := false
		for i := 0; i < st.NumFields(); i++ {
			if st.Field(i).Name() == name {
				c = in.kid(c, name, st.Field(i).Type())
				found = true
				break
			}
		}
		if !found {
			panic(vocabMiss{"field " + name + " of " + c.name})
		}
	}
	return c
}

func (in *Interp) siteID(i ssa.Instruction) int {
	if id, ok := in.siteIDs[i]; ok {
		return id
	}
	id := len(in.siteIDs) + 1
	in.siteIDs[i] = id
	return id
}

func (in *Interp) ctxKey() string {
	var sb strings.Builder
	for _, c := range in.ctx {
		fmt.Fprintf(&sb, "%d/", c)
	}
	return sb.String()
}

// named unknown: the same instruction in the same calling context always yields the same symbol;
// re-executing it (loop) forgets what was known about the previous incarnation.
func (in *Interp) symAt(tag string) int {
	k := in.ctxKey() + "#" + tag
	id, ok := in.symTab[k]
	if !ok {
		in.symCounter++
		id = in.symCounter
		in.symTab[k] = id
	}
	if in.curSt != nil {
		delete(in.curSt.nilF, id)
		delete(in.curSt.boolF, id)
	}
	return id
}

func (in *Interp) instrTag() string {
	in.subIdx++
	if in.cur == nil {
		return fmt.Sprintf("nil:%d", in.subIdx)
	}
	return fmt.Sprintf("i%d:%d", in.siteID(in.cur), in.subIdx)
}

func (in *Interp) top() Value    { return Top{in.symAt(in.instrTag())} }
func (in *Interp) nonNil() Value { return NonNilV{in.symAt(in.instrTag())} }

// unknown of a given type: pointers to repo structs point at the singleton object of that type.
func (in *Interp) unknown(t types.Type) Value {
	if t == nil {
		return in.top()
	}
	switch u := t.(type) {
	case *types.Tuple:
		tv := TupleV{make([]Value, u.Len())}
		for i := range tv.elems {
			tv.elems[i] = in.unknown(u.At(i).Type())
		}
		return tv
	}
	if p, ok := t.Underlying().(*types.Pointer); ok {
		if n, ok := p.Elem().(*types.Named); ok && in.isRepoStruct(n) {
			return PtrV{cell: in.singleton(n), sym: in.symAt(in.instrTag()), weak: true}
		}
	}
	return in.top()
}

func (in *Interp) isRepoStruct(n *types.Named) bool {
	if _, ok := n.Underlying().(*types.Struct); !ok {
		return false
	}
	if n.Obj().Pkg() == nil {
		return false
	}
	pp := n.Obj().Pkg().Path()
	return pp == modPath || pp == modPath+"/pq"
}

func (in *Interp) cellAt(tag, name string, t types.Type) *Cell {
	k := in.ctxKey() + "#" + tag
	if c, ok := in.cellTab[k]; ok {
		return c
	}
	c := in.newCell(name, t, false)
	c.local = true
	in.cellTab[k] = c
	return c
}

func (in *Interp) chain() []string {
	c := make([]string, 0, len(in.stack))
	for _, f := range in.stack {
		c = append(c, f.Name())
	}
	return c
}

func (in *Interp) report(kind string, instr ssa.Instruction, msg string) {
	pos := in.P.InstrPos(instr)
	fn := ""
	if instr != nil && instr.Parent() != nil {
		fn = funcName(instr.Parent())
	}
	key := kind + "|" + fn + "|" + msg
	if in.repSeen[key] {
		return
	}
	in.repSeen[key] = true
	in.reports = append(in.reports, aiReport{Kind: kind, Msg: msg, Pos: pos, Fn: fn, Chain: in.chain(), Instr: instr})
}

// lazy singleton object for a named struct type
func (in *Interp) singleton(t types.Type) *Cell {
	k := t.String()
	if c, ok := in.cellOf[k]; ok {
		return c
	}
	name := k
	if i := strings.LastIndex(k, "."); i >= 0 {
		name = k[i+1:]
	}
	c := in.newCell("<"+name+">", t, true)
	in.cellOf[k] = c
	return c
}

func (in *Interp) load(fs *FState, instr ssa.Instruction, c *Cell) Value {
	in.plugin.OnLoad(in, fs, instr, c)
	return in.loadCell(fs.st, c)
}

// smallArray: arrays of up to 8 elements are handled element-wise (like structs), so that e.g. a
// [2]reason passed by value keeps the nil-ness of its elements.
func smallArray(t types.Type) (*types.Array, bool) {
	a, ok := t.Underlying().(*types.Array)
	if !ok || a.Len() <= 0 || a.Len() > 8 {
		return nil, false
	}
	return a, true
}

func (in *Interp) loadCell(st *State, c *Cell) Value {
	if a, ok := smallArray(c.typ); ok {
		r := StructV{fields: make([]Value, a.Len()), src: c.id}
		for i := 0; i < int(a.Len()); i++ {
			r.fields[i] = in.loadCell(st, in.kid(c, fmt.Sprintf("[%d]", i), a.Elem()))
		}
		return r
	}
	if s, ok := c.typ.Underlying().(*types.Struct); ok {
		r := StructV{fields: make([]Value, s.NumFields()), src: c.id}
		for i := 0; i < s.NumFields(); i++ {
			r.fields[i] = in.loadCell(st, in.kid(c, s.Field(i).Name(), s.Field(i).Type()))
		}
		return r
	}
	if v, ok := st.heap[c]; ok {
		return v
	}
	if !c.lazy {
		return zeroValue(c.typ)
	}
	// stable unknown for lazy singleton
	k := fmt.Sprintf("cell:%d", c.id)
	id, ok := in.symTab[k]
	if !ok {
		in.symCounter++
		id = in.symCounter
		in.symTab[k] = id
	}
	var v Value = Top{id}
	if p, ok := c.typ.Underlying().(*types.Pointer); ok {
		if n, ok := p.Elem().(*types.Named); ok && in.isRepoStruct(n) {
			v = PtrV{cell: in.singleton(n), sym: id}
		}
	}
	st.heap[c] = v
	return v
}

func (in *Interp) clearCell(st *State, c *Cell) {
	delete(st.heap, c)
	for _, k := range c.kidOrd {
		in.clearCell(st, k)
	}
}

func (in *Interp) store(fs *FState, instr ssa.Instruction, p PtrV, v Value) {
	in.plugin.OnStore(in, fs, instr, p.cell, v)
	if p.weak {
		in.weakStore(fs.st, p.cell, v)
		return
	}
	in.storeCell(fs.st, p.cell, v)
}

func (in *Interp) weakStore(st *State, c *Cell, v Value) {
	if a, ok := smallArray(c.typ); ok {
		sv, isS := v.(StructV)
		for i := 0; i < int(a.Len()); i++ {
			k := in.kid(c, fmt.Sprintf("[%d]", i), a.Elem())
			if isS && i < len(sv.fields) && sv.fields[i] != nil {
				in.weakStore(st, k, sv.fields[i])
			} else {
				in.weakStore(st, k, Top{})
			}
		}
		return
	}
	if s, ok := c.typ.Underlying().(*types.Struct); ok {
		sv, isS := v.(StructV)
		for i := 0; i < s.NumFields(); i++ {
			k := in.kid(c, s.Field(i).Name(), s.Field(i).Type())
			if isS && sv.fields[i] != nil {
				in.weakStore(st, k, sv.fields[i])
			} else {
				in.weakStore(st, k, Top{})
			}
		}
		return
	}
	old := in.loadCell(st, c)
	if valueKey(old) != valueKey(v) {
		st.heap[c] = Top{}
	}
}

func (in *Interp) storeCell(st *State, c *Cell, v Value) {
	if a, ok := smallArray(c.typ); ok {
		sv, isS := v.(StructV)
		_, isZero := v.(zeroStruct)
		for i := 0; i < int(a.Len()); i++ {
			k := in.kid(c, fmt.Sprintf("[%d]", i), a.Elem())
			switch {
			case isS && i < len(sv.fields) && sv.fields[i] != nil:
				in.storeCell(st, k, sv.fields[i])
			case isZero:
				if _, nested := a.Elem().Underlying().(*types.Struct); nested {
					in.storeCell(st, k, zeroStruct{})
				} else {
					in.storeCell(st, k, zeroValue(a.Elem()))
				}
			default:
				in.storeCell(st, k, in.unknown(a.Elem()))
			}
		}
		return
	}
	if s, ok := c.typ.Underlying().(*types.Struct); ok {
		sv, isS := v.(StructV)
		_, isZero := v.(zeroStruct)
		for i := 0; i < s.NumFields(); i++ {
			k := in.kid(c, s.Field(i).Name(), s.Field(i).Type())
			switch {
			case isS && sv.fields[i] != nil:
				in.storeCell(st, k, sv.fields[i])
			case isZero:
				if _, nested := s.Field(i).Type().Underlying().(*types.Struct); nested {
					in.storeCell(st, k, zeroStruct{})
				} else {
					z := zeroValue(s.Field(i).Type())
					if nv, ok := z.(NilV); ok {
						nv.explicit = true // an explicit `T{}` assignment clears the field on purpose
						z = nv
					}
					in.storeCell(st, k, z)
				}
			default:
				// unknown struct value: pointer fields to repository structs point at the (weak) singleton
				in.storeCell(st, k, in.unknown(s.Field(i).Type()))
			}
		}
		return
	}
	if _, isZero := v.(zeroStruct); isZero {
		v = zeroValue(c.typ)
	}
	st.heap[c] = v
}

// zeroStruct is the value of a `T{}` constant of struct type.
type zeroStruct struct{}

func (zeroStruct) vstr() string { return "{}" }

// ---- evaluation ----

func (in *Interp) val(fs *FState, v ssa.Value) Value {
	switch x := v.(type) {
	case *ssa.Const:
		if x.Value == nil {
			if isNilable(x.Type()) {
				return NilV{true}
			}
			if _, ok := x.Type().Underlying().(*types.Struct); ok {
				return zeroStruct{}
			}
			if _, ok := smallArray(x.Type()); ok {
				return zeroStruct{}
			}
			return zeroValue(x.Type())
		}
		return ConstV{x.Value}
	case *ssa.Function:
		return ClosureV{fn: x}
	case *ssa.Global:
		c, ok := in.globals[x]
		if !ok {
			c = in.newCell("global:"+x.Name(), x.Type().Underlying().(*types.Pointer).Elem(), true)
			in.globals[x] = c
		}
		return PtrV{cell: c}
	case *ssa.Builtin:
		return Top{}
	}
	if r, ok := fs.env[v]; ok {
		return r
	}
	return Top{}
}

func (in *Interp) evalBinOp(fs *FState, b *ssa.BinOp) Value {
	x, y := in.val(fs, b.X), in.val(fs, b.Y)
	st := fs.st
	if cx, ok := x.(ConstV); ok {
		if cy, ok := y.(ConstV); ok {
			switch b.Op {
			case token.EQL, token.NEQ, token.LSS, token.LEQ, token.GTR, token.GEQ:
				return constBool(constant.Compare(cx.c, b.Op, cy.c))
			case token.SHL, token.SHR:
				if n, ok := constant.Uint64Val(cy.c); ok && n < 64 && cx.c.Kind() == constant.Int {
					return ConstV{constant.Shift(cx.c, b.Op, uint(n))}
				}
				return in.top()
			case token.QUO:
				if constant.Sign(cy.c) == 0 {
					return in.top()
				}
				if cx.c.Kind() == constant.Int && cy.c.Kind() == constant.Int {
					return ConstV{constant.BinaryOp(cx.c, token.QUO_ASSIGN, cy.c)}
				}
				return in.top()
			case token.ADD, token.SUB, token.MUL, token.REM, token.AND, token.OR, token.XOR, token.AND_NOT:
				if cx.c.Kind() != cy.c.Kind() {
					return in.top()
				}
				if cx.c.Kind() == constant.Bool || cx.c.Kind() == constant.String && b.Op != token.ADD {
					return in.top()
				}
				if b.Op == token.REM && constant.Sign(cy.c) == 0 {
					return in.top()
				}
				r := constant.BinaryOp(cx.c, b.Op, cy.c)
				// keep only values that fit the result type's width semantics for small ints
				if bt, ok := b.Type().Underlying().(*types.Basic); ok && bt.Info()&types.IsUnsigned != 0 && r.Kind() == constant.Int && constant.Sign(r) < 0 {
					return in.top()
				}
				return ConstV{r}
			}
		}
	}
	if b.Op == token.EQL || b.Op == token.NEQ {
		// nil comparisons
		var other Value
		var otherT types.Type
		if knownNil(x) {
			other, otherT = y, b.Y.Type()
		} else if knownNil(y) {
			other, otherT = x, b.X.Type()
		}
		if other != nil {
			n := st.nilness(other)
			if n != 0 {
				return constBool((n == 1) == (b.Op == token.EQL))
			}
			osym := 0
			switch o := other.(type) {
			case Top:
				osym = o.sym
			case PtrV:
				osym = o.sym
			}
			_, isPtr := other.(PtrV)
			if osym != 0 && (isPtr || errorLike(otherT)) {
				s := in.symAt(in.instrTag())
				if b.Op == token.EQL {
					in.symRel[s] = rel{relIsNil, osym}
				} else {
					in.symRel[s] = rel{relNotNil, osym}
				}
				return Top{s}
			}
			return in.top()
		}
		// bool equality with const
		if cy, ok := y.(ConstV); ok && cy.c.Kind() == constant.Bool {
			if bv, ok := st.boolOf(x); ok {
				return constBool((bv == constant.BoolVal(cy.c)) == (b.Op == token.EQL))
			}
		}
		if px, ok := x.(PtrV); ok {
			if py, ok := y.(PtrV); ok && px.cell == py.cell && px.sym == 0 && py.sym == 0 {
				return constBool(b.Op == token.EQL)
			}
		}
	}
	return in.top()
}

func (in *Interp) learnBool(s *State, sym int, val bool) {
	if sym == 0 {
		return
	}
	if _, ok := in.symRel[sym]; !ok && !in.trackedBool[sym] {
		return // plain unknown booleans are not tracked (keeps the number of disjuncts small)
	}
	s.boolF[sym] = val
	if r, ok := in.symRel[sym]; ok {
		switch r.kind {
		case relIsNil:
			in.learnNil(s, r.of, val)
		case relNotNil:
			in.learnNil(s, r.of, !val)
		case relNot:
			in.learnBool(s, r.of, !val)
		}
	}
}

func (in *Interp) learnNil(s *State, sym int, isNil bool) {
	if sym == 0 {
		return
	}
	if in.OnLearnNil != nil {
		in.OnLearnNil(s, sym, isNil)
	}
	if isNil {
		s.nilF[sym] = 1
	} else {
		s.nilF[sym] = 2
	}
}

func (in *Interp) nilDeref(fs *FState, instr ssa.Instruction, v Value) {
	if nv, ok := v.(NilV); ok && nv.explicit {
		in.plugin.OnNilDeref(in, fs, instr)
	}
	fs.st.dead = true
}

func (in *Interp) evalUnOp(fs *FState, u *ssa.UnOp) Value {
	x := in.val(fs, u.X)
	switch u.Op {
	case token.MUL: // load
		switch p := x.(type) {
		case PtrV:
			if p.sym != 0 {
				if fs.st.nilF[p.sym] == 1 {
					fs.st.dead = true
					return Top{}
				}
				fs.st.nilF[p.sym] = 2
			}
			return in.load(fs, u, p.cell)
		case NilV:
			in.nilDeref(fs, u, p)
			return Top{}
		}
		return in.unknown(u.Type())
	case token.NOT:
		if b, ok := fs.st.boolOf(x); ok {
			return constBool(!b)
		}
		if t, ok := x.(Top); ok && t.sym != 0 {
			s := in.symAt(in.instrTag())
			in.symRel[s] = rel{relNot, t.sym}
			return Top{s}
		}
		return in.top()
	case token.SUB, token.XOR:
		if c, ok := x.(ConstV); ok && c.c.Kind() == constant.Int {
			if u.Op == token.XOR {
				if bt, ok := u.Type().Underlying().(*types.Basic); ok && bt.Info()&types.IsUnsigned != 0 {
					return in.top()
				}
			}
			return ConstV{constant.UnaryOp(u.Op, c.c, 0)}
		}
	}
	return in.top()
}

func structFieldOf(t types.Type, i int) *types.Var {
	if p, ok := t.Underlying().(*types.Pointer); ok {
		t = p.Elem()
	}
	return t.Underlying().(*types.Struct).Field(i)
}

func symOf(v Value) int {
	switch x := v.(type) {
	case Top:
		return x.sym
	case NonNilV:
		return x.sym
	}
	return 0
}

func (in *Interp) TrackBool(v Value) {
	if s := symOf(v); s != 0 {
		if in.trackedBool == nil {
			in.trackedBool = map[int]bool{}
		}
		in.trackedBool[s] = true
	}
}

func (in *Interp) Taint(v Value) {
	if s := symOf(v); s != 0 {
		if in.taint == nil {
			in.taint = map[int]bool{}
		}
		in.taint[s] = true
	}
}

func (in *Interp) Tainted(v Value) bool { return in.taint[symOf(v)] && symOf(v) != 0 }

// propagateTaint: the result of an arithmetic / conversion instruction over a tainted operand is tainted.
func (in *Interp) propagateTaint(fs *FState, instr ssa.Instruction) {
	if len(in.taint) == 0 {
		return
	}
	switch instr.(type) {
	case *ssa.BinOp, *ssa.UnOp, *ssa.Convert, *ssa.ChangeType:
	default:
		return
	}
	v, ok := instr.(ssa.Value)
	if !ok {
		return
	}
	res, ok := fs.env[v]
	if !ok || symOf(res) == 0 {
		return
	}
	if u, isU := instr.(*ssa.UnOp); isU && u.Op == token.MUL {
		return // loads are sources, not propagation
	}
	for _, op := range instr.Operands(nil) {
		if op != nil && *op != nil && in.Tainted(in.val(fs, *op)) {
			in.Taint(res)
			return
		}
	}
}

// step executes one non-terminator instruction on fs; may return several successor states (calls).
func (in *Interp) step(fs *FState, instr ssa.Instruction) []*FState {
	in.cur, in.curSt, in.subIdx = instr, fs.st, 0
	defer in.propagateTaint(fs, instr)
	switch x := instr.(type) {
	case *ssa.Alloc:
		t := x.Type().Underlying().(*types.Pointer).Elem()
		name := x.Comment
		if name == "" {
			name = "alloc"
		}
		c := in.cellAt(fmt.Sprintf("a%d", in.siteID(x)), fmt.Sprintf("%s@%s", name, x.Parent().Name()), t)
		// a re-executed Alloc yields a fresh (zero) object: forget old contents
		in.clearCell(fs.st, c)
		fs.env[x] = PtrV{cell: c}
	case *ssa.Store:
		switch p := in.val(fs, x.Addr).(type) {
		case PtrV:
			if p.sym != 0 {
				if fs.st.nilF[p.sym] == 1 {
					fs.st.dead = true
					break
				}
				fs.st.nilF[p.sym] = 2
			}
			in.store(fs, x, p, in.val(fs, x.Val))
		case NilV:
			in.nilDeref(fs, x, p)
		}
	case *ssa.UnOp:
		fs.env[x] = in.evalUnOp(fs, x)
	case *ssa.BinOp:
		fs.env[x] = in.evalBinOp(fs, x)
	case *ssa.FieldAddr:
		switch p := in.val(fs, x.X).(type) {
		case PtrV:
			if p.sym != 0 {
				if fs.st.nilF[p.sym] == 1 {
					fs.st.dead = true
					break
				}
				fs.st.nilF[p.sym] = 2
			}
			f := structFieldOf(x.X.Type(), x.Field)
			fs.env[x] = PtrV{cell: in.kid(p.cell, f.Name(), f.Type()), weak: p.weak}
		case NilV:
			in.nilDeref(fs, x, p)
		default:
			if fs.st.nilness(p) == 1 {
				fs.st.dead = true
				break
			}
			// unknown pointer of a known repository struct type: the (weak) singleton of that type
			if pt, ok := x.X.Type().Underlying().(*types.Pointer); ok {
				if n, ok := pt.Elem().(*types.Named); ok && in.isRepoStruct(n) {
					f := structFieldOf(x.X.Type(), x.Field)
					fs.env[x] = PtrV{cell: in.kid(in.singleton(n), f.Name(), f.Type()), weak: true}
					break
				}
			}
			fs.env[x] = in.nonNil()
		}
	case *ssa.Field:
		if s, ok := in.val(fs, x.X).(StructV); ok && x.Field < len(s.fields) && s.fields[x.Field] != nil {
			fs.env[x] = s.fields[x.Field]
		} else {
			fs.env[x] = in.unknown(x.Type())
		}
	case *ssa.IndexAddr:
		switch p := in.val(fs, x.X).(type) {
		case PtrV:
			if c, ok := in.val(fs, x.Index).(ConstV); ok {
				if arr, ok := p.cell.typ.Underlying().(*types.Array); ok {
					fs.env[x] = PtrV{cell: in.kid(p.cell, "["+c.c.String()+"]", arr.Elem()), weak: p.weak}
					break
				}
			}
			fs.env[x] = in.nonNil()
		case NilV:
			// indexing a nil slice panics (index out of range) — the path ends, not a nil dereference report
			fs.st.dead = true
		default:
			fs.env[x] = in.nonNil()
		}
	case *ssa.Index:
		if sv, ok := in.val(fs, x.X).(StructV); ok {
			if c, ok := in.val(fs, x.Index).(ConstV); ok {
				if i, exact := asConstInt(c); exact && int(i) < len(sv.fields) && i >= 0 && sv.fields[i] != nil {
					fs.env[x] = sv.fields[i]
					break
				}
			}
		}
		fs.env[x] = in.unknown(x.Type())
	case *ssa.Extract:
		if t, ok := in.val(fs, x.Tuple).(TupleV); ok && x.Index < len(t.elems) {
			fs.env[x] = t.elems[x.Index]
		} else {
			fs.env[x] = in.unknown(x.Type())
		}
	case *ssa.MakeClosure:
		b := make([]Value, len(x.Bindings))
		for i, v := range x.Bindings {
			b[i] = in.val(fs, v)
		}
		fs.env[x] = ClosureV{fn: x.Fn.(*ssa.Function), binds: b}
	case *ssa.MakeInterface:
		fs.env[x] = IfaceV{typ: x.X.Type(), val: in.val(fs, x.X)}
	case *ssa.ChangeInterface:
		fs.env[x] = in.val(fs, x.X)
	case *ssa.ChangeType:
		fs.env[x] = in.val(fs, x.X)
	case *ssa.Convert:
		v := in.val(fs, x.X)
		switch cv := v.(type) {
		case PtrV, NilV:
			fs.env[x] = v
		case ConstV:
			if b, ok := x.Type().Underlying().(*types.Basic); ok && b.Info()&types.IsInteger != 0 && cv.c.Kind() == constant.Int {
				fs.env[x] = v
			} else {
				fs.env[x] = in.top()
			}
		default:
			fs.env[x] = in.top()
		}
	case *ssa.TypeAssert:
		v := in.val(fs, x.X)
		var r Value = v
		var okv Value = in.top()
		if iv, ok := v.(IfaceV); ok && !types.IsInterface(x.AssertedType) {
			if types.Identical(iv.typ, x.AssertedType) {
				r = iv.val
				okv = constBool(true)
			} else {
				r = in.unknown(x.AssertedType)
				okv = constBool(false)
			}
		} else if !types.IsInterface(x.AssertedType) {
			r = in.unknown(x.AssertedType)
		} else if knownNil(v) {
			okv = constBool(false)
		}
		if x.CommaOk {
			fs.env[x] = TupleV{[]Value{r, okv}}
		} else {
			fs.env[x] = r
		}
	case *ssa.Phi:
		// handled on edges
	case *ssa.Call:
		return in.call(fs, x, x.Common(), x)
	case *ssa.Defer:
		rec := deferRec{call: x}
		cc := x.Common()
		if cc.IsInvoke() || cc.StaticCallee() == nil {
			rec.fn = in.val(fs, cc.Value)
		} else if mc, ok := cc.Value.(*ssa.MakeClosure); ok {
			rec.fn = in.val(fs, mc)
		}
		for _, a := range cc.Args {
			rec.args = append(rec.args, in.val(fs, a))
		}
		fs.defers = append(fs.defers, rec)
	case *ssa.RunDefers:
		cur := []*FState{fs}
		for {
			var next []*FState
			progressed := false
			for _, c := range cur {
				if len(c.defers) == 0 || c.st.dead {
					next = append(next, c)
					continue
				}
				progressed = true
				rec := c.defers[len(c.defers)-1]
				c.defers = c.defers[:len(c.defers)-1]
				next = append(next, in.callWith(c, rec.call, rec.call.Common(), nil, rec.fn, rec.args)...)
			}
			cur = next
			if !progressed {
				break
			}
		}
		return cur
	case *ssa.Go:
		// other goroutine: not followed here (roles are analysed from their own roots)
	case *ssa.MapUpdate:
		if nv, ok := in.val(fs, x.Map).(NilV); ok {
			in.nilDeref(fs, x, nv)
		}
	case *ssa.Slice:
		switch p := in.val(fs, x.X).(type) {
		case NilV:
			fs.env[x] = p
		default:
			fs.env[x] = in.nonNil()
		}
	case *ssa.MakeSlice, *ssa.MakeMap, *ssa.MakeChan:
		fs.env[instr.(ssa.Value)] = in.nonNil()
	case *ssa.Lookup, *ssa.Next, *ssa.Select:
		fs.env[instr.(ssa.Value)] = in.unknown(instr.(ssa.Value).Type())
	case *ssa.Range, *ssa.SliceToArrayPointer:
		fs.env[instr.(ssa.Value)] = in.top()
	case *ssa.Send, *ssa.DebugRef:
	default:
		if v, ok := instr.(ssa.Value); ok {
			fs.env[v] = in.unknown(v.Type())
		}
	}
	return []*FState{fs}
}

func (in *Interp) call(fs *FState, site ssa.Instruction, cc *ssa.CallCommon, res ssa.Value) []*FState {
	var fnv Value
	if cc.IsInvoke() || cc.StaticCallee() == nil {
		fnv = in.val(fs, cc.Value)
	} else if mc, ok := cc.Value.(*ssa.MakeClosure); ok {
		fnv = in.val(fs, mc)
	}
	args := make([]Value, len(cc.Args))
	for i, a := range cc.Args {
		args[i] = in.val(fs, a)
	}
	return in.callWith(fs, site, cc, res, fnv, args)
}

// callWith: fnv is the evaluated callee value (closure / interface receiver) for dynamic calls.
func (in *Interp) callWith(fs *FState, site ssa.Instruction, cc *ssa.CallCommon, res ssa.Value, fnv Value, args []Value) []*FState {
	setRes := func(f *FState, v Value) {
		if res != nil {
			f.env[res] = v
		}
	}
	opaque := func(sig *types.Signature) []*FState {
		in.havocArgs(fs, args)
		setRes(fs, in.unknown(sig.Results()))
		if sig.Results().Len() == 1 {
			setRes(fs, in.unknown(sig.Results().At(0).Type()))
		}
		return []*FState{fs}
	}
	var callee *ssa.Function
	var binds []Value
	if cc.IsInvoke() {
		if iv, ok := fnv.(IfaceV); ok {
			ms := in.prog.MethodSets.MethodSet(iv.typ)
			if sel := ms.Lookup(cc.Method.Pkg(), cc.Method.Name()); sel != nil {
				callee = in.prog.MethodValue(sel)
				args = append([]Value{iv.val}, args...)
			}
		}
		if nv, ok := fnv.(NilV); ok && callee == nil {
			in.nilDeref(fs, site, nv)
			return nil
		}
		if callee == nil {
			if handled, r := in.plugin.OnCall(in, fs, site, nil, fnv, args); handled {
				setRes(fs, r)
				return []*FState{fs}
			}
			return opaque(cc.Signature())
		}
	} else if sc := cc.StaticCallee(); sc != nil {
		callee = sc
		if cv, ok := fnv.(ClosureV); ok {
			binds = cv.binds
		}
	} else if b, isB := cc.Value.(*ssa.Builtin); isB {
		switch b.Name() {
		case "len", "cap":
			if len(args) == 1 && knownNil(args[0]) {
				setRes(fs, constInt(0))
			} else {
				setRes(fs, in.top())
			}
		case "append":
			setRes(fs, in.nonNil())
		default:
			setRes(fs, in.unknown(cc.Signature().Results()))
			if cc.Signature().Results().Len() == 1 {
				setRes(fs, in.top())
			}
		}
		return []*FState{fs}
	} else {
		switch cv := fnv.(type) {
		case ClosureV:
			callee, binds = cv.fn, cv.binds
		case NilV:
			in.nilDeref(fs, site, cv)
			return nil
		default:
			if handled, r := in.plugin.OnCall(in, fs, site, nil, fnv, args); handled {
				setRes(fs, r)
				return []*FState{fs}
			}
			return opaque(cc.Signature())
		}
	}
	if handled, r := in.plugin.OnCall(in, fs, site, callee, fnv, args); handled {
		setRes(fs, r)
		return []*FState{fs}
	}
	synthetic := callee.Synthetic != "" && len(callee.Blocks) > 0 && len(callee.Blocks) <= 3
	if (!in.P.InRepo(callee) && !synthetic) || len(callee.Blocks) == 0 || in.NoEnter[callee] {
		return opaque(callee.Signature)
	}
	if in.Relevant != nil && !in.Relevant[callee] && !synthetic && !in.P.cheap(callee) {
		in.skipped[callee] = true
		if in.OnSkip != nil {
			in.OnSkip(in, fs, site, callee)
		}
		if eff := in.P.Effects().Of(callee); eff != nil {
			for f := range eff.mods {
				for _, c := range in.cellsByField[f] {
					in.havocCell(fs.st, c)
				}
			}
		}
		return opaque(callee.Signature)
	}
	for _, f := range in.stack {
		if f == callee {
			return opaque(callee.Signature)
		}
	}
	if len(in.stack) > 60 {
		return opaque(callee.Signature)
	}
	in.ctx = append(in.ctx, in.siteID(site))
	exits := in.interpFunc(callee, args, binds, fs.st)
	in.ctx = in.ctx[:len(in.ctx)-1]
	in.cur, in.curSt, in.subIdx = site, fs.st, 100
	if traceFn != "" && strings.Contains(","+traceFn+",", ","+callee.Name()+",") {
		fmt.Printf("CALL %s from %s: %d exits\n", callee.Name(), in.P.InstrPos(site), len(exits))
		for _, e := range exits {
			fmt.Printf("     exit prop=%s err=%d ret=%s\n", e.st.prop.Key(), errOfExit(callee, e), e.ret.vstr())
		}
	}
	if len(exits) == 0 {
		fs.st.dead = true
		return nil
	}
	var out []*FState
	for i, e := range exits {
		var n *FState
		if i == len(exits)-1 {
			n = fs
		} else {
			n = fs.clone()
		}
		n.st = e.st
		setRes(n, e.ret)
		out = append(out, n)
	}
	return out
}

func (in *Interp) havocCell(st *State, c *Cell) {
	if s, ok := c.typ.Underlying().(*types.Struct); ok {
		for i := 0; i < s.NumFields(); i++ {
			in.havocCell(st, in.kid(c, s.Field(i).Name(), s.Field(i).Type()))
		}
		return
	}
	for _, k := range c.kidOrd {
		in.havocCell(st, k)
	}
	if c.lazy {
		delete(st.heap, c) // back to the stable unknown
		if id, ok := in.symTab[fmt.Sprintf("cell:%d", c.id)]; ok {
			delete(st.nilF, id)
			delete(st.boolF, id)
		}
		if _, isPtr := c.typ.Underlying().(*types.Pointer); !isPtr {
			st.heap[c] = Top{}
		}
		return
	}
	st.heap[c] = Top{}
}

// havocArgs: an opaque callee may write through any pointer it is handed.
func (in *Interp) havocArgs(fs *FState, args []Value) {
	var hv func(v Value, depth int)
	hv = func(v Value, depth int) {
		if depth > 3 {
			return
		}
		switch x := v.(type) {
		case PtrV:
			if x.cell.lazy && x.cell.parent == nil {
				return // do not forget whole singleton objects
			}
			if _, isStruct := x.cell.typ.Underlying().(*types.Struct); isStruct {
				return
			}
			fs.st.heap[x.cell] = in.top()
		case IfaceV:
			hv(x.val, depth+1)
		case ClosureV:
			for _, b := range x.binds {
				hv(b, depth+1)
			}
		}
	}
	for _, a := range args {
		hv(a, 0)
	}
}

func (in *Interp) valuesOf(fn *ssa.Function) []ssa.Value {
	if v, ok := in.fnVals[fn]; ok {
		return v
	}
	var vs []ssa.Value
	for _, p := range fn.Params {
		vs = append(vs, p)
	}
	for _, p := range fn.FreeVars {
		vs = append(vs, p)
	}
	for _, b := range fn.Blocks {
		for _, i := range b.Instrs {
			if v, ok := i.(ssa.Value); ok {
				vs = append(vs, v)
			}
		}
	}
	in.fnVals[fn] = vs
	return vs
}

// isEnumPhi: φ all of whose incoming edges are small constants stays disjunctive (DESIGN §2.9).
func isEnumPhi(phi *ssa.Phi) bool {
	for _, e := range phi.Edges {
		if _, isFn := e.(*ssa.Function); isFn {
			continue // a choice between named functions (op := growFile; if … { op = shrinkFile })
		}
		c, ok := e.(*ssa.Const)
		if !ok || c.Value == nil {
			return false
		}
		switch c.Value.Kind() {
		case constant.Bool:
		case constant.String:
			if len(constant.StringVal(c.Value)) > 80 {
				return false
			}
		case constant.Int:
			if n, ok := constant.Int64Val(c.Value); !ok || n < -2 || n > 8 {
				return false
			}
		default:
			return false
		}
	}
	return true
}

// key is the merge key of a disjunct inside one function activation.
func (in *Interp) key(fn *ssa.Function, f *FState, coarse bool) string {
	var sb strings.Builder
	sb.WriteString(f.st.prop.Key())
	sb.WriteString("|")
	for _, r := range f.defers {
		fmt.Fprintf(&sb, "%d;", in.siteID(r.call))
	}
	if coarse {
		return sb.String()
	}
	sb.WriteString("|")
	live := map[int]bool{}
	for _, v := range f.env {
		collectSyms(v, live)
	}
	if ls, ok := f.st.prop.(interface{ LiveSyms() []int }); ok {
		for _, s := range ls.LiveSyms() {
			live[s] = true
		}
	}
	var parts []string
	for k, v := range f.st.nilF {
		if live[k] {
			parts = append(parts, fmt.Sprintf("n%d=%d", k, v))
		}
	}
	for k, v := range f.st.boolF {
		if live[k] {
			parts = append(parts, fmt.Sprintf("b%d=%v", k, v))
		}
	}
	// enum φs and boolean flag cells of the frame
	for v, av := range f.env {
		if phi, ok := v.(*ssa.Phi); ok && isEnumPhi(phi) {
			if c, ok := av.(ConstV); ok {
				parts = append(parts, fmt.Sprintf("e%d=%s", in.siteID(phi), c.c.ExactString()))
			}
			if c, ok := av.(ClosureV); ok && len(c.binds) == 0 {
				parts = append(parts, fmt.Sprintf("e%d=f:%s", in.siteID(phi), c.fn.String()))
			}
		}
	}
	for c, v := range f.st.heap {
		if c.local && c.parent == nil {
			if cv, ok := v.(ConstV); ok && cv.c.Kind() == constant.Bool {
				parts = append(parts, fmt.Sprintf("f%d=%s", c.id, cv.c.ExactString()))
			}
		}
	}
	sort.Strings(parts)
	sb.WriteString(strings.Join(parts, ","))
	return sb.String()
}

// interpFunc interprets fn from state st; returns exits (each with own state).
func (in *Interp) interpFunc(fn *ssa.Function, args []Value, binds []Value, st *State) []Exit {
	in.budget--
	in.calls[fn.String()]++
	in.entered[fn] = true
	if in.budget < 0 {
		if in.failed == "" {
			in.failed = "interpretation budget exhausted in " + fn.String()
		}
		return nil
	}
	in.stack = append(in.stack, fn)
	defer func() { in.stack = in.stack[:len(in.stack)-1] }()

	entry := &FState{st: st.clone(), env: map[ssa.Value]Value{}}
	in.cur, in.curSt, in.subIdx = nil, entry.st, 0
	for i, p := range fn.Params {
		if i < len(args) && args[i] != nil {
			entry.env[p] = args[i]
		} else {
			in.subIdx = 1000 + i
			entry.env[p] = in.unknown(p.Type())
		}
	}
	for i, fv := range fn.FreeVars {
		if i < len(binds) {
			entry.env[fv] = binds[i]
		} else {
			in.subIdx = 2000 + i
			entry.env[fv] = in.top()
		}
	}
	type blockIn map[string]*FState
	ins := make([]blockIn, len(fn.Blocks))
	for i := range ins {
		ins[i] = blockIn{}
	}
	ins[0][in.key(fn, entry, false)] = entry
	work := []int{0}
	inWork := map[int]bool{0: true}
	visits := map[int]int{}
	var exits []Exit
	exitSeen := map[string]int{}
	const coarseAfter = 40

	addTo := func(b *ssa.BasicBlock, from *ssa.BasicBlock, f *FState) {
		// phis
		predIdx := -1
		for i, p := range b.Preds {
			if p == from {
				predIdx = i
			}
		}
		type pv struct {
			phi *ssa.Phi
			v   Value
		}
		var newVals []pv
		for _, ins := range b.Instrs {
			phi, ok := ins.(*ssa.Phi)
			if !ok {
				break
			}
			newVals = append(newVals, pv{phi, in.val(f, phi.Edges[predIdx])})
		}
		for _, p := range newVals {
			f.env[p.phi] = p.v
		}
		coarse := visits[b.Index] > coarseAfter
		if coarse && len(ins[b.Index]) > 0 {
			// re-key existing disjuncts coarsely (merge them)
			merged := blockIn{}
			keys := make([]string, 0, len(ins[b.Index]))
			for k := range ins[b.Index] {
				keys = append(keys, k)
			}
			sort.Strings(keys)
			for _, k := range keys {
				o := ins[b.Index][k]
				ck := in.key(fn, o, true)
				if m, ok := merged[ck]; ok {
					in.joinInto(fn, m, o)
				} else {
					merged[ck] = o
				}
			}
			ins[b.Index] = merged
		}
		k := in.key(fn, f, coarse)
		old, ok := ins[b.Index][k]
		changed := false
		if !ok {
			ins[b.Index][k] = f
			changed = true
		} else {
			changed = in.joinInto(fn, old, f)
		}
		if changed && !inWork[b.Index] {
			inWork[b.Index] = true
			work = append(work, b.Index)
		}
	}

	for len(work) > 0 {
		bi := work[0]
		work = work[1:]
		inWork[bi] = false
		visits[bi]++
		if visits[bi] > 160 {
			if in.failed == "" {
				in.failed = "block visit limit in " + fn.String()
				if os.Getenv("TXLINT_DEBUG") != "" {
					fmt.Printf("DEBUG visit limit block %d of %s: %d disjuncts\n", bi, fn.String(), len(ins[bi]))
					n := 0
					for k := range ins[bi] {
						if n < 12 {
							fmt.Println("   key:", k)
						}
						n++
					}
				}
			}
			continue
		}
		b := fn.Blocks[bi]
		var cur []*FState
		keys := make([]string, 0, len(ins[bi]))
		for k := range ins[bi] {
			keys = append(keys, k)
		}
		sort.Strings(keys)
		for _, k := range keys {
			cur = append(cur, ins[bi][k].clone())
		}
		for _, instr := range b.Instrs {
			var next []*FState
			switch t := instr.(type) {
			case *ssa.If:
				for _, f := range cur {
					in.cur, in.curSt, in.subIdx = instr, f.st, 0
					c := in.val(f, t.Cond)
					if bv, ok := f.st.boolOf(c); ok {
						if bv {
							addTo(b.Succs[0], b, f)
						} else {
							addTo(b.Succs[1], b, f)
						}
						continue
					}
					f2 := f.clone()
					if tc, ok := c.(Top); ok {
						in.learnBool(f.st, tc.sym, true)
						in.learnBool(f2.st, tc.sym, false)
					}
					addTo(b.Succs[0], b, f)
					addTo(b.Succs[1], b, f2)
				}
				cur = nil
			case *ssa.Jump:
				for _, f := range cur {
					addTo(b.Succs[0], b, f)
				}
				cur = nil
			case *ssa.Return:
				for _, f := range cur {
					var ret Value
					switch len(t.Results) {
					case 0:
						ret = Top{}
					case 1:
						ret = in.val(f, t.Results[0])
					default:
						tv := TupleV{}
						for _, r := range t.Results {
							tv.elems = append(tv.elems, in.val(f, r))
						}
						ret = tv
					}
					live := map[int]bool{}
					collectSyms(ret, live)
					if ls, ok := f.st.prop.(interface{ LiveSyms() []int }); ok {
						for _, s := range ls.LiveSyms() {
							live[s] = true
						}
					}
					var parts []string
					for k, v := range f.st.nilF {
						if live[k] {
							parts = append(parts, fmt.Sprintf("n%d=%d", k, v))
						}
					}
					for k, v := range f.st.boolF {
						if live[k] {
							parts = append(parts, fmt.Sprintf("b%d=%v", k, v))
						}
					}
					sort.Strings(parts)
					k := f.st.prop.Key() + "|" + strings.Join(parts, ",") + "|" + valueKey(ret)
					if i, ok := exitSeen[k]; !ok {
						exitSeen[k] = len(exits)
						exits = append(exits, Exit{st: f.st, ret: ret})
					} else {
						in.joinStates(exits[i].st, f.st, "x")
					}
				}
				cur = nil
			case *ssa.Panic:
				cur = nil
			default:
				for _, f := range cur {
					if f.st.dead {
						continue
					}
					for _, n := range in.step(f, instr) {
						if !n.st.dead {
							next = append(next, n)
						}
					}
				}
				cur = next
			}
			if cur == nil {
				break
			}
		}
	}
	return exits
}

// joinInto merges n into old (same key). Returns true if old changed.
func (in *Interp) joinInto(fn *ssa.Function, old, n *FState) bool {
	changed := false
	for _, k := range in.valuesOf(fn) {
		ov, ok1 := old.env[k]
		nv, ok2 := n.env[k]
		switch {
		case ok1 && ok2:
			if valueKey(ov) != valueKey(nv) {
				j := in.joinNamed(old.st, n.st, ov, nv, fmt.Sprintf("jenv:%d", in.siteIDv(k)))
				if valueKey(j) != valueKey(ov) {
					old.env[k] = j
					changed = true
				}
			}
		case !ok1 && ok2:
			old.env[k] = nv
			changed = true
		}
	}
	if in.joinStates(old.st, n.st, "j") {
		changed = true
	}
	return changed
}

func (in *Interp) siteIDv(v ssa.Value) int {
	if i, ok := v.(ssa.Instruction); ok {
		return in.siteID(i)
	}
	// params / freevars: use a synthetic instruction-less id
	k := fmt.Sprintf("v:%p", v)
	id, ok := in.symTab[k]
	if !ok {
		in.symCounter++
		id = in.symCounter
		in.symTab[k] = id
	}
	return -id
}

func (in *Interp) joinStates(old, n *State, tag string) bool {
	changed := false
	cells := make([]*Cell, 0, len(old.heap)+len(n.heap))
	for c := range old.heap {
		cells = append(cells, c)
	}
	for c := range n.heap {
		if _, ok := old.heap[c]; !ok {
			cells = append(cells, c)
		}
	}
	sort.Slice(cells, func(i, j int) bool { return cells[i].id < cells[j].id })
	for _, c := range cells {
		ov, ok1 := old.heap[c]
		nv, ok2 := n.heap[c]
		switch {
		case ok1 && ok2:
			if valueKey(ov) != valueKey(nv) {
				j := in.joinNamed(old, n, ov, nv, fmt.Sprintf("%scell:%d", tag, c.id))
				if valueKey(j) != valueKey(ov) {
					old.heap[c] = j
					changed = true
				}
			}
		case !ok1 && ok2:
			// old has the default (zero or stable unknown) for this cell
			dv := in.loadCell(old, c)
			if valueKey(dv) != valueKey(nv) {
				j := in.joinNamed(old, n, dv, nv, fmt.Sprintf("%scell:%d", tag, c.id))
				old.heap[c] = j
				changed = true
			}
		case ok1 && !ok2:
			dv := in.loadCell(n, c)
			if valueKey(dv) != valueKey(ov) {
				j := in.joinNamed(old, n, ov, dv, fmt.Sprintf("%scell:%d", tag, c.id))
				if valueKey(j) != valueKey(ov) {
					old.heap[c] = j
					changed = true
				}
			}
		}
	}
	for k, v := range old.nilF {
		if in.isJoinSym[k] {
			continue
		}
		if nv, ok := n.nilF[k]; !ok || nv != v {
			delete(old.nilF, k)
		}
	}
	for k, v := range old.boolF {
		if nv, ok := n.boolF[k]; !ok || nv != v {
			delete(old.boolF, k)
		}
	}
	return changed
}

// joinNamed joins two differing values into a symbol interned per join point; nil-ness on which both
// sides agree survives the join.
func (in *Interp) joinNamed(old, n *State, ov, nv Value, tag string) Value {
	if so, ok := ov.(StructV); ok {
		if sn, ok := nv.(StructV); ok && len(so.fields) == len(sn.fields) {
			r := StructV{fields: make([]Value, len(so.fields))}
			if so.src == sn.src {
				r.src = so.src
			}
			for i := range so.fields {
				switch {
				case so.fields[i] == nil || sn.fields[i] == nil:
					r.fields[i] = Top{}
				case valueKey(so.fields[i]) == valueKey(sn.fields[i]):
					r.fields[i] = so.fields[i]
				default:
					r.fields[i] = in.joinNamed(old, n, so.fields[i], sn.fields[i], fmt.Sprintf("%s.%d", tag, i))
				}
			}
			return r
		}
		return Top{}
	}
	if to, ok := ov.(TupleV); ok {
		if tn, ok := nv.(TupleV); ok && len(to.elems) == len(tn.elems) {
			r := TupleV{make([]Value, len(to.elems))}
			for i := range to.elems {
				if valueKey(to.elems[i]) == valueKey(tn.elems[i]) {
					r.elems[i] = to.elems[i]
				} else {
					r.elems[i] = in.joinNamed(old, n, to.elems[i], tn.elems[i], fmt.Sprintf("%s.%d", tag, i))
				}
			}
			return r
		}
		return Top{}
	}
	// same cell, differing nil-ness symbol: keep the cell
	if po, ok := ov.(PtrV); ok {
		if pn, ok := nv.(PtrV); ok && po.cell == pn.cell {
			no, nn := old.nilness(ov), n.nilness(nv)
			if no == 2 && nn == 2 {
				return PtrV{cell: po.cell, weak: po.weak || pn.weak}
			}
			id := in.joinSym(tag)
			delete(old.nilF, id)
			return PtrV{cell: po.cell, sym: id, weak: po.weak || pn.weak}
		}
	}
	no, nn := old.nilness(ov), n.nilness(nv)
	id := in.joinSym(tag)
	if t, isTop := ov.(Top); isTop && t.sym == id {
		// already the join symbol: keep fact only if the new side agrees
		if nn == 0 || nn != no {
			delete(old.nilF, id)
		}
		return ov
	}
	delete(old.nilF, id)
	delete(old.boolF, id)
	if no != 0 && no == nn {
		old.nilF[id] = no
	}
	if in.Tainted(ov) && in.Tainted(nv) {
		in.Taint(Top{id})
	}
	return Top{id}
}

func (in *Interp) joinSym(tag string) int {
	k := in.ctxKey() + "#" + tag
	id, ok := in.symTab[k]
	if !ok {
		in.symCounter++
		id = in.symCounter
		in.symTab[k] = id
	}
	in.isJoinSym[id] = true
	return id
}

// Run interprets root from an initial state.
func (in *Interp) Run(root *ssa.Function, args []Value, st *State) []Exit {
	return in.interpFunc(root, args, nil, st)
}

// errOfExit returns the nil-ness of the last (error-like) result of an exit: 0 unknown, 1 nil, 2 non-nil, -1 no error result.
func errOfExit(fn *ssa.Function, e Exit) int8 {
	res := fn.Signature.Results()
	if res.Len() == 0 || !errorLike(res.At(res.Len()-1).Type()) {
		return -1
	}
	var errV Value = e.ret
	if t, ok := e.ret.(TupleV); ok {
		errV = t.elems[len(t.elems)-1]
	}
	return e.st.nilness(errV)
}

func (in *Interp) enteredNames() []string {
	var s []string
	for f := range in.entered {
		s = append(s, funcName(f))
	}
	sort.Strings(s)
	return s
}
