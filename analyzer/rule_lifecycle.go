package main

// LIFECYCLE (DESIGN §3 C15, C08.4): the method × lifecycle-state matrix evaluated abstractly.
// For every exported method and every scenario that makes the call invalid:
//  (a) no definite nil dereference / nil-map store is reachable and the call can return,
//  (b) every return carries a non-nil error (if the method has an error result),
//  (c) no effect: no lock event, no writer event, no store into shared File state.

import (
	"fmt"
	"go/types"
	"sort"
	"strings"

	"golang.org/x/tools/go/ssa"
)

type lifecyclePlugin struct {
	basePlugin
	effectFns map[*ssa.Function]string
	effects   []string
	effSeen   map[string]bool
}

func (l *lifecyclePlugin) effect(in *Interp, instr ssa.Instruction, what string) {
	k := what + "@" + funcName(instr.Parent())
	if l.effSeen[k] {
		return
	}
	l.effSeen[k] = true
	l.effects = append(l.effects, fmt.Sprintf("%s in %s (%s) via %s", what, funcName(instr.Parent()), in.P.InstrPos(instr), strings.Join(in.chain(), ">")))
}

func (l *lifecyclePlugin) OnCall(in *Interp, fs *FState, site ssa.Instruction, callee *ssa.Function, fnv Value, args []Value) (bool, Value) {
	if callee != nil {
		if what, ok := l.effectFns[callee]; ok {
			l.effect(in, site, what)
			return true, in.unknown(callee.Signature.Results())
		}
		return false, nil
	}
	if c, ok := site.(ssa.CallInstruction); ok && c.Common().IsInvoke() {
		rt, m := c.Common().Value.Type(), c.Common().Method.Name()
		switch {
		case isNamed(rt, "sync", "Locker"):
			l.effect(in, site, "lock event "+m)
			return true, Top{}
		case isNamed(rt, modPath+"/pq", "Delegate") && strings.HasPrefix(m, "Begin"):
			l.effect(in, site, "transaction started ("+m+")")
		}
	}
	return false, nil
}

func (l *lifecyclePlugin) OnNilDeref(in *Interp, fs *FState, instr ssa.Instruction) {
	in.report("NILDEREF", instr, "definite nil dereference of state cleared by close")
}

func (l *lifecyclePlugin) OnStore(in *Interp, fs *FState, instr ssa.Instruction, c *Cell, v Value) {
	if c.parent == nil || !c.lazy {
		return
	}
	rn, ok := c.root().typ.(*types.Named)
	if !ok || rn.Obj().Pkg() == nil || rn.Obj().Pkg().Path() != modPath || !sharedOwners[rn.Obj().Name()] {
		return
	}
	l.effect(in, instr, "store to shared state "+rn.Obj().Name()+"."+c.path())
}

func lifecycleEffectFns(p *Program) map[*ssa.Function]string {
	m := map[*ssa.Function]string{}
	for _, c := range []string{"shared", "reserved", "pending", "exclusive"} {
		m[p.Method("txfile", c+"Lock", "Lock")] = "lock event " + c + ".Lock"
		m[p.Method("txfile", c+"Lock", "Unlock")] = "lock event " + c + ".Unlock"
	}
	m[p.Method("txfile", "writer", "Schedule")] = "page write scheduled"
	m[p.Method("txfile", "writer", "Sync")] = "sync scheduled"
	return m
}

// expectation for one (type, method, scenario)
type lcExpect int

const (
	lcMustError lcExpect = iota // error result must be non-nil on every return
	lcNoPanic                   // only (a) and (c): must be able to return, no nil dereference, no effect
	lcNoPanicEffectsOK          // only (a)
)

type lcCase struct {
	pkg, typ string
	kinds    []string // documented error kinds for this misuse (any element of the error's cause chain may carry it)
	args     func(fn *ssa.Function, args []Value) // optional: constants for parameters
	sc       scenario
	// expect returns the expectation for a method, or false if the scenario does not make it invalid
	expect func(fn *ssa.Function, hasErr bool) (lcExpect, bool)
}

func hasErrResult(fn *ssa.Function) bool {
	res := fn.Signature.Results()
	return res.Len() > 0 && errorLike(res.At(res.Len()-1).Type())
}

func nameIn(n string, set ...string) bool {
	for _, s := range set {
		if s == n {
			return true
		}
	}
	return false
}

// finKinds: a finished transaction reports TxFinished; for a finished read-only transaction the write
// operations may report TxReadOnly instead (both are documented for that call).
func finKinds(readonly bool) []string {
	if readonly {
		return []string{"TxFinished", "TxReadOnly"}
	}
	return []string{"TxFinished"}
}

func lifecycleCases(p *Program) []lcCase {
	var cases []lcCase
	pageWriteOps := []string{"MarkDirty", "Free", "Load", "SetBytes", "Flush"}
	txWriteOps := []string{"Alloc", "AllocN", "CheckpointWAL", "Flush"}
	for _, ro := range []bool{false, true} {
		fin := finishedTxScenario(p, ro)
		cases = append(cases, lcCase{pkg: "txfile", typ: "Tx", sc: fin, kinds: finKinds(ro), expect: func(fn *ssa.Function, hasErr bool) (lcExpect, bool) {
			if fn.Name() == "Close" {
				return lcNoPanic, true // documented: Close on a finished tx is ignored
			}
			if fn.Name() == "RootPage" {
				return lcNoPanic, true // returns (nil, nil) when no root is set
			}
			if hasErr {
				return lcMustError, true
			}
			return lcNoPanic, true
		}})
		cases = append(cases, lcCase{pkg: "txfile", typ: "Page", sc: fin, kinds: finKinds(ro), expect: func(fn *ssa.Function, hasErr bool) (lcExpect, bool) {
			if hasErr {
				return lcMustError, true
			}
			return lcNoPanic, true
		}})
	}
	roTx := txScenario(true, true)
	roTx.name = "tx-readonly"
	cases = append(cases, lcCase{pkg: "txfile", typ: "Tx", sc: roTx, kinds: []string{"TxReadOnly"}, expect: func(fn *ssa.Function, hasErr bool) (lcExpect, bool) {
		if nameIn(fn.Name(), txWriteOps...) {
			return lcMustError, true
		}
		return 0, false
	}})
	cases = append(cases, lcCase{pkg: "txfile", typ: "Page", sc: roTx, kinds: []string{"TxReadOnly"}, expect: func(fn *ssa.Function, hasErr bool) (lcExpect, bool) {
		if nameIn(fn.Name(), pageWriteOps...) {
			return lcMustError, true
		}
		return 0, false
	}})
	for _, flag := range []string{"freed", "flushed"} {
		sc := txScenario(false, true)
		sc.name = "page-" + flag
		sc.consts["txfile.Page.flags."+flag] = constBool(true)
		cases = append(cases, lcCase{pkg: "txfile", typ: "Page", sc: sc, kinds: []string{"InvalidOp"}, expect: func(fn *ssa.Function, hasErr bool) (lcExpect, bool) {
			if nameIn(fn.Name(), pageWriteOps...) {
				return lcMustError, true
			}
			return 0, false
		}})
	}
	dirty := txScenario(false, true)
	dirty.name = "page-dirty"
	dirty.consts["txfile.Page.flags.dirty"] = constBool(true)
	dirty.consts["txfile.Page.flags.freed"] = constBool(false)
	dirty.consts["txfile.Page.flags.flushed"] = constBool(false)
	cases = append(cases, lcCase{pkg: "txfile", typ: "Page", sc: dirty, kinds: []string{"InvalidOp"}, expect: func(fn *ssa.Function, hasErr bool) (lcExpect, bool) {
		if fn.Name() == "Free" {
			return lcMustError, true
		}
		return 0, false
	}})
	// fresh page without buffer: reading it is an error
	fresh := txScenario(false, true)
	fresh.name = "page-new-without-buffer"
	fresh.consts["txfile.Page.flags.new"] = constBool(true)
	fresh.consts["txfile.Page.bytes"] = NilV{true}
	cases = append(cases, lcCase{pkg: "txfile", typ: "Page", sc: fresh, kinds: []string{"InvalidOp"}, expect: func(fn *ssa.Function, hasErr bool) (lcExpect, bool) {
		if fn.Name() == "Bytes" {
			return lcMustError, true
		}
		return 0, false
	}})

	// ---- pq ----
	wClosed := scenario{name: "writer-closed", consts: map[string]Value{"pq.Writer.active": constBool(false), "pq.Writer.state.buf": NilV{true}}}
	cases = append(cases, lcCase{pkg: "pq", typ: "Writer", sc: wClosed, kinds: []string{"WriterClosed"}, expect: func(fn *ssa.Function, hasErr bool) (lcExpect, bool) {
		if hasErr {
			return lcMustError, true
		}
		return lcNoPanic, true
	}})
	rClosed := scenario{name: "reader-closed", consts: map[string]Value{"pq.Reader.active": constBool(false)}}
	cases = append(cases, lcCase{pkg: "pq", typ: "Reader", sc: rClosed, kinds: []string{"ReaderClosed"}, expect: func(fn *ssa.Function, hasErr bool) (lcExpect, bool) {
		if hasErr {
			return lcMustError, true
		}
		return lcNoPanicEffectsOK, true // Done() on a closed reader may still close its transaction
	}})
	rNoTx := scenario{name: "reader-without-tx", consts: map[string]Value{"pq.Reader.active": constBool(true), "pq.Reader.tx": NilV{true}}}
	cases = append(cases, lcCase{pkg: "pq", typ: "Reader", sc: rNoTx, kinds: []string{"InactiveTx"}, expect: func(fn *ssa.Function, hasErr bool) (lcExpect, bool) {
		if fn.Name() == "Begin" {
			return 0, false
		}
		if hasErr {
			return lcMustError, true
		}
		return lcNoPanic, true
	}})
	// queue closed before any handle was created: the lazy getters must not hand out live handles
	qClosed := scenario{name: "queue-closed", consts: map[string]Value{"pq.Queue.closed": constBool(true),
		"pq.Queue.reader": NilV{true}, "pq.Queue.writer": NilV{true}, "pq.Queue.acker": NilV{true}}}
	cases = append(cases, lcCase{pkg: "pq", typ: "Queue", sc: qClosed, kinds: []string{"QueueClosed"},
		args: func(fn *ssa.Function, args []Value) {
			if fn.Name() == "ACK" && len(args) > 1 {
				args[1] = constInt(1) // ACK(0) is a documented no-op
			}
		},
		expect: func(fn *ssa.Function, hasErr bool) (lcExpect, bool) {
			switch fn.Name() {
			case "Writer", "ACK":
				return lcMustError, true
			case "Reader":
				return lcNoPanic, true
			}
			return 0, false
		}})
	return cases
}

func ruleLIFECYCLE(p *Program, rep *Report, only string) {
	floor := 60
	if only != "" {
		floor = 20
	}
	rep.Rule("LIFECYCLE", floor, "method × lifecycle-state matrix under scenario constants: invalid calls return a non-nil error whose kind (own or of a cause in its chain) is the documented one, never reach a definite nil dereference, and have no lock/writer/shared-state effect (engine A)")
	effFns := lifecycleEffectFns(p)
	for _, c := range lifecycleCases(p) {
		if only != "" && !strings.Contains(c.sc.name, only) {
			continue
		}
		for _, fn := range methodsOf(p, c.pkg, c.typ, true) {
			exp, ok := c.expect(fn, hasErrResult(fn))
			if !ok {
				continue
			}
			name := fmt.Sprintf("%s.%s[%s]", c.typ, fn.Name(), c.sc.name)
			if debugRoot != "" && !strings.Contains(name, debugRoot) {
				continue
			}
			runLifecycleCase(p, rep, effFns, c, fn, exp, name)
		}
	}
}

func runLifecycleCase(p *Program, rep *Report, effFns map[*ssa.Function]string, c lcCase, fn *ssa.Function, exp lcExpect, name string) {
	pl := &lifecyclePlugin{effectFns: effFns, effSeen: map[string]bool{}}
	in := newInterp(p, pl)
	var failed string
	var exits []Exit
	func() {
		defer func() {
			if e := recover(); e != nil {
				if vm, ok := e.(vocabMiss); ok {
					failed = vm.Error()
					return
				}
				if debugVerbose {
					panic(e)
				}
				failed = fmt.Sprintf("analysis panic: %v", e)
			}
		}()
		st := newState(noProp{})
		in.applyScenario(st, c.sc)
		args := recvArgs(in, fn, PtrV{cell: in.singleton(p.Named(c.pkg, c.typ))})
		if c.args != nil {
			c.args(fn, args)
		}
		exits = in.Run(fn, args, st)
		failed = in.failed
	}()
	rep.Analysed(in.enteredNames()...)
	pos := p.Pos(fn.Pos())
	if failed != "" {
		rep.Unknown("LIFECYCLE", name, pos, "analysis did not complete: "+failed)
		return
	}
	var problems, witness []string
	for _, ar := range in.reports {
		if ar.Kind == "NILDEREF" {
			problems = append(problems, "panics: nil dereference in "+ar.Fn)
			witness = append(witness, fmt.Sprintf("%s at %s via %s", ar.Msg, ar.Pos, strings.Join(ar.Chain, ">")))
		}
	}
	if len(exits) == 0 && len(problems) == 0 {
		problems = append(problems, "no path returns (every path ends in a panic)")
	}
	if exp == lcMustError {
		for _, e := range exits {
			if en := errOfExit(fn, e); en != 2 {
				what := "can return a nil error"
				if en == 0 {
					what = "can return an error whose nil-ness is not determined (not provably non-nil)"
				}
				problems = append(problems, what)
				witness = append(witness, "return value "+e.ret.vstr())
				break
			}
		}
	}
	if exp == lcMustError && len(c.kinds) > 0 {
		for _, e := range exits {
			if errOfExit(fn, e) != 2 {
				continue
			}
			chain := kindOfExit(in, fn, e)
			if strings.Contains(chain, "?") {
				continue // kind not determined statically on this path: not decided (no alarm)
			}
			hit := false
			for _, k := range strings.Split(chain, "<") {
				if nameIn(k, c.kinds...) {
					hit = true
				}
			}
			if !hit {
				problems = append(problems, "returns an error of kind "+chain+", the documented kind for this misuse is "+strings.Join(c.kinds, " or "))
				witness = append(witness, "return value "+e.ret.vstr())
			}
		}
	}
	if exp != lcNoPanicEffectsOK && len(pl.effects) > 0 {
		problems = append(problems, "has effects although the call is invalid")
		witness = append(witness, pl.effects...)
	}
	if debugVerbose {
		var ks []string
		for _, e := range exits {
			ks = append(ks, kindOfExit(in, fn, e))
		}
		fmt.Printf("lifecycle %-50s exits=%d reports=%d effects=%d kinds=%v problems=%v\n", name, len(exits), len(in.reports), len(pl.effects), ks, problems)
	}
	if len(problems) > 0 {
		sort.Strings(problems)
		problems = uniq(problems)
		rep.Bad("LIFECYCLE", name+"|"+strings.Join(problems, "; "), pos, name+": "+strings.Join(problems, "; "), witness...)
		return
	}
	var ds []string
	for _, e := range exits {
		ds = append(ds, fmt.Sprintf("err=%d kind=%s", errOfExit(fn, e), kindOfExit(in, fn, e)))
	}
	rep.OK("LIFECYCLE", name, pos, fmt.Sprintf("%d return class(es) [%s], no nil dereference, no effect", len(exits), strings.Join(ds, ",")))
}

func uniq(s []string) []string {
	var out []string
	for i, x := range s {
		if i == 0 || x != s[i-1] {
			out = append(out, x)
		}
	}
	return out
}

// kindOfExit names the error kind constant carried by the error an exit returns: the abstract value of the
// `kind` field of the repository's *Error object the returned interface points to.  "" = no error result,
// "?" = not determined, "unset" = an *Error without kind (kind is inherited from its cause).
func kindOfExit(in *Interp, fn *ssa.Function, e Exit) string {
	res := fn.Signature.Results()
	if res.Len() == 0 || !errorLike(res.At(res.Len()-1).Type()) {
		return ""
	}
	var v Value = e.ret
	if t, ok := e.ret.(TupleV); ok {
		v = t.elems[len(t.elems)-1]
	}
	return kindOfValue(in, e.st, v, 0)
}

func kindOfValue(in *Interp, st *State, v Value, depth int) string {
	if depth > 4 {
		return "?"
	}
	if iv, ok := v.(IfaceV); ok {
		if n := namedOf(iv.typ); n != nil && n.Obj().Name() == "ErrKind" {
			if c, ok := iv.val.(ConstV); ok {
				return kindConstName(n, c)
			}
			return "?"
		}
		v = iv.val
	}
	pv, ok := v.(PtrV)
	if !ok || pv.cell == nil {
		return "?"
	}
	stt, ok := pv.cell.typ.Underlying().(*types.Struct)
	if !ok {
		return "?"
	}
	own, cause := "?", ""
	for i := 0; i < stt.NumFields(); i++ {
		switch stt.Field(i).Name() {
		case "kind":
			k := in.loadCell(st, in.kid(pv.cell, "kind", stt.Field(i).Type()))
			if _, isNil := k.(NilV); isNil {
				own = "unset"
			} else {
				own = kindOfValue(in, st, k, depth+1)
			}
		case "cause":
			c := in.loadCell(st, in.kid(pv.cell, "cause", stt.Field(i).Type()))
			if _, isNil := c.(NilV); !isNil {
				cause = kindOfValue(in, st, c, depth+1)
			}
		}
	}
	if cause != "" {
		return own + "<" + cause
	}
	return own
}

func kindConstName(n *types.Named, c ConstV) string {
	sc := n.Obj().Pkg().Scope()
	for _, name := range sc.Names() {
		if k, ok := sc.Lookup(name).(*types.Const); ok && types.Identical(k.Type(), n) && k.Val().String() == c.c.String() {
			return name
		}
	}
	return "#" + c.c.String()
}
