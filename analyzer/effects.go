package main

// Field-based mod/ref summaries and call-graph reachability over the CHA graph.  Used by engine A to
// skip callees that cannot reach any event of the active plug-in (their stores are havocked by field,
// their accesses are attributed to the call site), and by the who-may-call rules.

import (
	"go/types"
	"sort"

	"golang.org/x/tools/go/callgraph"
	"golang.org/x/tools/go/ssa"
)

type fnEffects struct {
	mods map[*types.Var]bool
	refs map[*types.Var]bool
}

func newFnEffects() *fnEffects {
	return &fnEffects{mods: map[*types.Var]bool{}, refs: map[*types.Var]bool{}}
}

type Effects struct {
	p      *Program
	direct map[*ssa.Function]*fnEffects
	trans  map[*ssa.Function]*fnEffects
}

func (p *Program) Effects() *Effects {
	if p.effects != nil {
		return p.effects
	}
	e := &Effects{p: p, direct: map[*ssa.Function]*fnEffects{}, trans: map[*ssa.Function]*fnEffects{}}
	cg := p.CHA()
	for fn := range cg.Nodes {
		if fn == nil || !p.InRepo(fn) {
			continue
		}
		e.direct[fn] = directEffects(fn)
	}
	// transitive closure (fixpoint over the call graph)
	for fn, d := range e.direct {
		t := newFnEffects()
		for k := range d.mods {
			t.mods[k] = true
		}
		for k := range d.refs {
			t.refs[k] = true
		}
		e.trans[fn] = t
	}
	changed := true
	for changed {
		changed = false
		for fn, t := range e.trans {
			n := cg.Nodes[fn]
			if n == nil {
				continue
			}
			for _, out := range n.Out {
				ct := e.trans[out.Callee.Func]
				if ct == nil {
					continue
				}
				for k := range ct.mods {
					if !t.mods[k] {
						t.mods[k] = true
						changed = true
					}
				}
				for k := range ct.refs {
					if !t.refs[k] {
						t.refs[k] = true
						changed = true
					}
				}
			}
		}
	}
	p.effects = e
	return e
}

// fieldChain returns the innermost field selected by an address expression, or nil.
func addrField(v ssa.Value) *types.Var {
	switch x := v.(type) {
	case *ssa.FieldAddr:
		return fieldOfAddr(x)
	case *ssa.IndexAddr:
		return addrField(x.X)
	}
	return nil
}

func directEffects(fn *ssa.Function) *fnEffects {
	e := newFnEffects()
	for _, b := range fn.Blocks {
		for _, ins := range b.Instrs {
			switch x := ins.(type) {
			case *ssa.Store:
				if f := addrField(x.Addr); f != nil {
					e.mods[f] = true
				}
			case *ssa.UnOp:
				if x.Op.String() == "*" {
					if f := addrField(x.X); f != nil {
						e.refs[f] = true
					}
				}
			case *ssa.FieldAddr:
				// escaping address (passed to a call, stored, captured): may be read and written elsewhere
				if refs := x.Referrers(); refs != nil {
					for _, r := range *refs {
						switch r.(type) {
						case *ssa.Store:
							if r.(*ssa.Store).Addr == x {
								continue
							}
							e.mods[fieldOfAddr(x)] = true
							e.refs[fieldOfAddr(x)] = true
						case *ssa.UnOp, *ssa.FieldAddr, *ssa.IndexAddr, *ssa.DebugRef:
						default:
							e.mods[fieldOfAddr(x)] = true
							e.refs[fieldOfAddr(x)] = true
						}
					}
				}
			case *ssa.Field:
				e.refs[fieldOfField(x)] = true
			case *ssa.MapUpdate:
				if u, ok := x.Map.(*ssa.UnOp); ok {
					if f := addrField(u.X); f != nil {
						e.mods[f] = true
					}
				}
			}
		}
	}
	return e
}

func (e *Effects) Of(fn *ssa.Function) *fnEffects { return e.trans[fn] }

// ---- reachability ----

// reachesAny computes the set of functions from which some function of seeds is reachable on g.
func reachesAny(g *callgraph.Graph, seeds map[*ssa.Function]bool) map[*ssa.Function]bool {
	out := map[*ssa.Function]bool{}
	var work []*callgraph.Node
	for fn := range seeds {
		if n := g.Nodes[fn]; n != nil {
			out[fn] = true
			work = append(work, n)
		} else {
			out[fn] = true
		}
	}
	for len(work) > 0 {
		n := work[len(work)-1]
		work = work[:len(work)-1]
		for _, in := range n.In {
			c := in.Caller
			if !out[c.Func] {
				out[c.Func] = true
				work = append(work, c)
			}
		}
	}
	return out
}

// withFuncRefs adds, to a backward-closed set, every function that references (takes the value of, or
// builds a closure over) a function of the set — a function that hands out a relevant closure is
// itself relevant — and closes the result again.
func withFuncRefs(p *Program, g *callgraph.Graph, set map[*ssa.Function]bool) map[*ssa.Function]bool {
	for {
		add := map[*ssa.Function]bool{}
		for fn := range g.Nodes {
			if fn == nil || set[fn] {
				continue
			}
			for _, b := range fn.Blocks {
				for _, ins := range b.Instrs {
					for _, op := range ins.Operands(nil) {
						if op == nil || *op == nil {
							continue
						}
						if f, ok := (*op).(*ssa.Function); ok && set[f] {
							add[fn] = true
						}
					}
				}
			}
		}
		if len(add) == 0 {
			return set
		}
		closed := reachesAny(g, add)
		for f := range closed {
			set[f] = true
		}
	}
}

// cheap: loop-free functions whose static in-repo callees are cheap too and that are small in total.
// Engine A always enters them (error constructors, accessors), whatever the plug-in's relevance set.
func (p *Program) cheap(fn *ssa.Function) bool {
	if p.cheapMemo == nil {
		p.cheapMemo = map[*ssa.Function]int{}
	}
	return p.cheapSize(fn, 0) >= 0
}

// cheapLimit: ordinary helpers are entered when tiny; loop-free functions that return an error or a
// boolean are potential guards (canWrite, canRead, Validate …) — skipping one makes every invalid path
// behind it look feasible — so they get a much larger budget.
func cheapLimit(fn *ssa.Function) int {
	res := fn.Signature.Results()
	if res.Len() > 0 {
		last := res.At(res.Len() - 1).Type()
		if errorLike(last) {
			return 2000
		}
		if b, ok := last.Underlying().(*types.Basic); ok && b.Info()&types.IsBoolean != 0 {
			return 2000
		}
	}
	return 200
}

// cheapSize returns the total instruction count or -1 if not cheap.
func (p *Program) cheapSize(fn *ssa.Function, depth int) int {
	if v, ok := p.cheapMemo[fn]; ok {
		return v
	}
	if len(fn.Blocks) == 0 || depth > 10 {
		return -1
	}
	p.cheapMemo[fn] = -1 // recursion guard
	// loop detection: DFS colouring
	color := make([]int, len(fn.Blocks))
	var hasLoop func(b *ssa.BasicBlock) bool
	hasLoop = func(b *ssa.BasicBlock) bool {
		color[b.Index] = 1
		for _, s := range b.Succs {
			if color[s.Index] == 1 {
				return true
			}
			if color[s.Index] == 0 && hasLoop(s) {
				return true
			}
		}
		color[b.Index] = 2
		return false
	}
	if hasLoop(fn.Blocks[0]) {
		return -1
	}
	total := 0
	for _, b := range fn.Blocks {
		total += len(b.Instrs)
		for _, ins := range b.Instrs {
			c, ok := ins.(ssa.CallInstruction)
			if !ok {
				continue
			}
			if sc := c.Common().StaticCallee(); sc != nil && p.InRepo(sc) && len(sc.Blocks) > 0 {
				n := p.cheapSize(sc, depth+1)
				if n < 0 {
					return -1
				}
				total += n
			}
		}
	}
	if total > cheapLimit(fn) {
		return -1
	}
	p.cheapMemo[fn] = total
	return total
}

// reachableFrom computes the functions reachable from roots on g.
func reachableFrom(g *callgraph.Graph, roots ...*ssa.Function) map[*ssa.Function]bool {
	out := map[*ssa.Function]bool{}
	var work []*callgraph.Node
	for _, fn := range roots {
		if n := g.Nodes[fn]; n != nil && !out[fn] {
			out[fn] = true
			work = append(work, n)
		}
	}
	for len(work) > 0 {
		n := work[len(work)-1]
		work = work[:len(work)-1]
		for _, e := range n.Out {
			c := e.Callee
			if !out[c.Func] {
				out[c.Func] = true
				work = append(work, c)
			}
		}
	}
	return out
}

// functions that (directly) store to or load one of the given fields
func (p *Program) funcsTouching(fields map[*types.Var]bool, write bool) map[*ssa.Function]bool {
	e := p.Effects()
	out := map[*ssa.Function]bool{}
	for fn, d := range e.direct {
		m := d.refs
		if write {
			m = d.mods
		}
		for f := range fields {
			if m[f] {
				out[fn] = true
			}
		}
	}
	return out
}

func sortedFuncNames(m map[*ssa.Function]bool) []string {
	var s []string
	for f := range m {
		s = append(s, funcName(f))
	}
	sort.Strings(s)
	return s
}
