package main

// Rules added after the second seeded round: TXID-COMPARE (C16), TOMBSTONE (C15/C04), READ-LOCATION (C03),
// SNAPSHOT-AFTER-ALLOC (C04), TRUNCATE-COVERS (C01/C07/C14), ACK-SCAN-FROM-HEAD (C12).

import (
	"fmt"
	"go/token"
	"go/types"
	"strings"

	"golang.org/x/tools/go/ssa"
)

// isFieldGet: v is a call x.f.Get() on a field of the given struct type; returns the field.
func fieldGetOf(v ssa.Value, owner *types.Named) *types.Var {
	c, ok := stripConv(v).(*ssa.Call)
	if !ok || c.Common().StaticCallee() == nil || c.Common().StaticCallee().Name() != "Get" || len(c.Common().Args) == 0 {
		return nil
	}
	recv := c.Common().Args[0]
	if ct, ok := recv.(*ssa.ChangeType); ok {
		recv = ct.X
	}
	fa, ok := recv.(*ssa.FieldAddr)
	if !ok {
		return nil
	}
	if n := namedOf(fa.X.Type()); n == nil || n.Obj() != owner.Obj() {
		return nil
	}
	return fieldOfAddr(fa)
}

// ruleTXIDCOMPARE: transaction ids are wrapping counters; two of them may only be ordered through the
// sign of their difference.
func ruleTXIDCOMPARE(p *Program, rep *Report) {
	rep.Rule("TXID-COMPARE", 1, "two header transaction ids are never ordered by a direct <, <=, >, >= comparison (the counter wraps); the newer header is selected through the sign of the difference")
	meta := p.Named("txfile", "metaPage")
	txid := p.FieldVar("txfile", "metaPage", "txid")
	// a value is a transaction id if it derives from metaPage.txid.Get(), or from a parameter that every
	// call site feeds with one (the comparison may live in a helper)
	var isTxidIn func(fn *ssa.Function, v ssa.Value, depth int) bool
	isTxidIn = func(fn *ssa.Function, v ssa.Value, depth int) bool {
		return derivesFrom(v, func(b ssa.Value) bool {
			if fieldGetOf(b, meta) == txid {
				return true
			}
			if pi := paramIndex(fn, b); pi >= 0 && depth < 2 {
				sites := p.callIndex().sites[fn]
				if len(sites) == 0 {
					return false
				}
				for _, s := range sites {
					if pi >= len(s.Common().Args) || !isTxidIn(s.Parent(), s.Common().Args[pi], depth+1) {
						return false
					}
				}
				return true
			}
			return false
		}, 0, map[ssa.Value]bool{})
	}
	var curFn *ssa.Function
	isTxid := func(v ssa.Value) bool { return isTxidIn(curFn, v, 0) }
	n := 0
	for _, fn := range p.SrcFuncs() {
		if fnPkgPath(fn) != modPath {
			continue
		}
		curFn = fn
		for _, b := range fn.Blocks {
			for _, ins := range b.Instrs {
				bo, ok := ins.(*ssa.BinOp)
				if !ok {
					continue
				}
				switch bo.Op {
				case token.LSS, token.LEQ, token.GTR, token.GEQ:
				default:
					continue
				}
				if !isTxid(bo.X) && !isTxid(bo.Y) {
					continue
				}
				n++
				rep.Analysed(funcName(fn))
				key := funcName(fn) + "|txid-order"
				// wrap-safe form: signed view of a difference compared with the constant 0
				signedDiff := func(x, zero ssa.Value) bool {
					if !isIntConst(zero, 0) {
						return false
					}
					cv, ok := x.(*ssa.Convert)
					if !ok {
						return false
					}
					bt, ok := cv.Type().Underlying().(*types.Basic)
					if !ok || bt.Info()&types.IsUnsigned != 0 {
						return false
					}
					d, ok := cv.X.(*ssa.BinOp)
					return ok && d.Op == token.SUB && isTxid(d.X) && isTxid(d.Y)
				}
				if signedDiff(bo.X, bo.Y) || signedDiff(bo.Y, bo.X) {
					rep.OK("TXID-COMPARE", key, p.InstrPos(ins), "ordered by the sign of the difference (wrap-safe)")
				} else {
					rep.Bad("TXID-COMPARE", key, p.InstrPos(ins), "transaction ids of two headers are ordered by a direct comparison: when the counter wraps around the older header is taken for the newer one and Open silently restores a stale commit")
				}
			}
		}
	}
	if n == 0 {
		rep.Unknown("TXID-COMPARE", "anchor", "", "no ordering of header transaction ids found (anchor lost)")
	}
}

// ruleTOMBSTONE: a Page object stays in Tx.pages until the transaction ends: for a page that was
// allocated and freed in the same transaction the cached object with flags.freed is the only record that
// it must not be used again.
func ruleTOMBSTONE(p *Program, rep *Report) {
	rep.Rule("TOMBSTONE", 1, "no entry is ever deleted from Tx.pages (the cached Page with flags.freed is the tombstone of a page freed in this transaction); the map is only replaced wholesale when the transaction is closed")
	pages := p.FieldVar("txfile", "Tx", "pages")
	closeFn := p.Method("txfile", "Tx", "close")
	bad := false
	stores := 0
	for _, fn := range p.SrcFuncs() {
		if fnPkgPath(fn) != modPath {
			continue
		}
		for _, b := range fn.Blocks {
			for _, ins := range b.Instrs {
				if c, ok := ins.(*ssa.Call); ok {
					if bi, ok := c.Common().Value.(*ssa.Builtin); ok && bi.Name() == "delete" && loadedField(c.Common().Args[0]) == pages {
						bad = true
						rep.Bad("TOMBSTONE", funcName(fn)+"|delete", p.InstrPos(ins), "a page is removed from the transaction's page cache: for a page allocated and freed in this transaction nothing remembers the free any more, a later tx.Page(id) returns a fresh writable page and a second Free puts the id on the free list twice")
					}
				}
				if st, ok := ins.(*ssa.Store); ok && addrField(st.Addr) == pages {
					if _, isFA := st.Addr.(*ssa.FieldAddr); isFA {
						stores++
						if fn != closeFn && fn != p.Func("txfile", "newTx") {
							bad = true
							rep.Bad("TOMBSTONE", funcName(fn)+"|replace", p.InstrPos(ins), "Tx.pages is replaced outside newTx / Tx.close")
						}
					}
				}
			}
		}
	}
	if !bad {
		rep.OK("TOMBSTONE", "Tx.pages", "", fmt.Sprintf("no delete; %d wholesale store(s) only in newTx/close", stores))
	}
}

// ruleREADLOCATION: the location a page is read from is the committed overwrite mapping, unconditionally.
func ruleREADLOCATION(p *Program, rep *Report) {
	rep.Rule("READ-LOCATION", 1, "Tx.getPage takes a page's on-disk location from the committed overwrite mapping (waLog.Get) on every path; transaction-local release state never overrides it (the checkpoint copy may still be queued in the writer)")
	getPage := p.Method("txfile", "Tx", "getPage")
	walGet := p.Method("txfile", "waLog", "Get")
	ondisk := p.FieldVar("txfile", "Page", "ondiskID")
	rep.Analysed(funcName(getPage))
	// exact: v is the result of waLog.Get, or of a helper whose every return is (exactly) such a result
	var exact func(v ssa.Value, depth int) bool
	exact = func(v ssa.Value, depth int) bool {
		c, ok := stripConv(v).(*ssa.Call)
		if !ok {
			if phi, isPhi := v.(*ssa.Phi); isPhi {
				for _, e := range phi.Edges {
					if !exact(e, depth) {
						return false
					}
				}
				return true
			}
			return false
		}
		sc := c.Common().StaticCallee()
		if sc == walGet {
			return true
		}
		if sc == nil || depth > 2 || !p.InRepo(sc) || len(sc.Blocks) == 0 {
			return false
		}
		for _, b := range sc.Blocks {
			if r, ok := b.Instrs[len(b.Instrs)-1].(*ssa.Return); ok {
				if len(r.Results) != 1 || !exact(r.Results[0], depth+1) {
					return false
				}
			}
		}
		return true
	}
	n := 0
	newPage := p.Func("txfile", "newPage")
	for _, fn := range sortedFns(staticReach(p, getPage)) {
		if fn == newPage {
			continue // the constructor's default (the page's own id)
		}
		for _, b := range fn.Blocks {
			for _, ins := range b.Instrs {
				st, ok := ins.(*ssa.Store)
				if !ok || addrField(st.Addr) != ondisk {
					continue
				}
				n++
				key := "Tx.getPage|ondiskID="
				if exact(st.Val, 0) {
					rep.OK("READ-LOCATION", key, p.InstrPos(ins), "ondiskID := committed mapping lookup")
				} else {
					rep.Bad("READ-LOCATION", key, p.InstrPos(ins), "the read location of a page is not taken unconditionally from the committed overwrite mapping: a page whose overwrite page was released earlier in this transaction (checkpoint) is read from its original location before the queued copy has been written — stale bytes are returned and can be committed")
				}
			}
		}
	}
	if n == 0 {
		rep.Unknown("READ-LOCATION", "Tx.getPage|anchor", p.Pos(getPage.Pos()), "getPage no longer assigns Page.ondiskID (anchor lost)")
	}
}

// ruleSNAPSHOTAFTERALLOC: the free lists that are serialized by a commit are read from the allocator only
// after the commit's own meta-page allocation (which may move regions from the data to the meta area).
func ruleSNAPSHOTAFTERALLOC(p *Program, rep *Report) {
	rep.Rule("SNAPSHOT-AFTER-ALLOC", 2, "the free lists a commit stores into its commit state (allocCommitState.dataList / metaList) are built from loads of freelist.regions that come after every call that can still change the free lists (the allocation of the pages that will hold the new free list); decided over fileCommitAlloc and its helpers")
	root := p.Method("txfile", "allocator", "fileCommitAlloc")
	v := newAllocVocab(p)
	eff := p.Effects()
	reach := staticReach(p, root)
	// stores of the new lists anywhere below the root
	n := 0
	for _, fn := range sortedFns(reach) {
		for _, b := range fn.Blocks {
			for _, ins := range b.Instrs {
				st, ok := ins.(*ssa.Store)
				if !ok {
					continue
				}
				f := addrField(st.Addr)
				if f == nil || fieldOwner(p, f) != "allocCommitState" || (f.Name() != "dataList" && f.Name() != "metaList") {
					continue
				}
				rep.Analysed(funcName(fn))
				sl := &slicer{p: p, fields: map[*types.Var]bool{}, seen: map[sliceKey]bool{}, within: reach}
				sl.walk(st.Val, 0, nil, 0)
				for _, ld := range sl.loads {
					if loadedField(ld) != v.fRegions || !reach[ld.Parent()] {
						continue
					}
					n++
					key := "allocator.fileCommitAlloc|" + f.Name()
					stale, undecided := snapshotStale(p, eff, v, root, ld, 0)
					switch {
					case undecided != "":
						rep.Unknown("SNAPSHOT-AFTER-ALLOC", key, p.InstrPos(ld), undecided)
					case stale != nil:
						rep.Bad("SNAPSHOT-AFTER-ALLOC", key, p.InstrPos(ld), "the free list that is serialized and installed by the commit is read before the commit allocates the pages for it ("+funcName(stale.Common().StaticCallee())+" at "+p.InstrPos(stale)+" can still change it): a region that this allocation moves from the data area into the meta area stays in the stale copy, the same pages end up data-free and meta-owned")
					default:
						rep.OK("SNAPSHOT-AFTER-ALLOC", key, p.InstrPos(ld), "free list read after the commit's own allocation")
					}
				}
			}
		}
	}
	if n == 0 {
		rep.Unknown("SNAPSHOT-AFTER-ALLOC", "fileCommitAlloc|lists", p.Pos(root.Pos()), "the new free lists are not built from loads of freelist.regions (anchor lost)")
	}
}

// snapshotStale: some call in root that can modify a free list is executable after the load ld (ld lies in
// root or in a function root calls).  Returns the offending call.
func snapshotStale(p *Program, eff *Effects, v *allocVocab, root *ssa.Function, ld ssa.Instruction, depth int) (ssa.CallInstruction, string) {
	if depth > 3 {
		return nil, "helper nesting too deep to order the free-list read against the allocation"
	}
	// position(s) of the load at the level of root
	var positions []ssa.Instruction
	if ld.Parent() == root {
		positions = []ssa.Instruction{ld}
	} else {
		for _, b := range root.Blocks {
			for _, ins := range b.Instrs {
				c, ok := ins.(ssa.CallInstruction)
				if !ok {
					continue
				}
				if sc := c.Common().StaticCallee(); sc != nil && p.InRepo(sc) && staticReach(p, sc)[ld.Parent()] {
					positions = append(positions, ins)
				}
			}
		}
	}
	if len(positions) == 0 {
		return nil, "free-list read not located below " + funcName(root)
	}
	for _, b := range root.Blocks {
		for _, ins := range b.Instrs {
			m, ok := ins.(ssa.CallInstruction)
			if !ok {
				continue
			}
			sc := m.Common().StaticCallee()
			if sc == nil || !p.InRepo(sc) {
				continue
			}
			e := eff.Of(sc)
			if e == nil || !(e.mods[v.fRegions] || e.mods[v.fAvail]) {
				continue
			}
			for _, pos := range positions {
				if pos == ins {
					// the read happens inside the call that also changes the lists: order them inside the callee
					if bad, und := snapshotStale(p, eff, v, sc, ld, depth+1); bad != nil || und != "" {
						return bad, und
					}
					continue
				}
				if executableAfter(pos, ins) {
					return m, ""
				}
			}
		}
	}
	return nil, ""
}

// executableAfter: instruction b can execute after instruction a (same function).
func executableAfter(a, b ssa.Instruction) bool {
	if a.Block() == b.Block() && instrIndex(b.Block(), b) > instrIndex(a.Block(), a) {
		return true
	}
	reach := map[*ssa.BasicBlock]bool{}
	work := append([]*ssa.BasicBlock(nil), a.Block().Succs...)
	for len(work) > 0 {
		x := work[len(work)-1]
		work = work[:len(work)-1]
		if reach[x] {
			continue
		}
		reach[x] = true
		work = append(work, x.Succs...)
	}
	return reach[b.Block()]
}

// ruleTRUNCATECOVERS: a size handed to Truncate depends on BOTH end markers (file end = max of the data
// and meta end marker), or the truncation is dominated by a test that it only grows the file.
func ruleTRUNCATECOVERS(p *Program, rep *Report) {
	rep.Rule("TRUNCATE-COVERS", 2, "every size handed to Truncate on an existing file is computed from both the data and the meta end marker, or is dominated by a comparison with the current file size that makes the call grow-only: otherwise pages the committed state refers to (overflow area beyond the data end marker, pages beyond a reduced limit) are cut off")
	endMarker := p.FieldVar("txfile", "allocArea", "endMarker")
	txEnd := p.FieldVar("txfile", "txAllocArea", "endMarker")
	fileSize := p.FieldVar("txfile", "File", "size")
	fTruncate := p.Method("txfile", "File", "truncate")
	initNew := p.Func("txfile", "initNewFile")
	d := &depCtx{p: p, memo: map[string]bool{}}
	areaLoad := func(area string) func(ssa.Value) bool {
		return func(v ssa.Value) bool {
			u, ok := stripConv(v).(*ssa.UnOp)
			if !ok || u.Op != token.MUL {
				return false
			}
			fa, ok := u.X.(*ssa.FieldAddr)
			if !ok || (fieldOfAddr(fa) != endMarker && fieldOfAddr(fa) != txEnd) {
				return false
			}
			in, ok := fa.X.(*ssa.FieldAddr)
			return ok && fieldOfAddr(in).Name() == area
		}
	}
	// anyDep: some path dependence (∃) — both markers must at least be able to influence the size
	var anyDep func(fn *ssa.Function, v ssa.Value, base func(ssa.Value) bool, seen map[ssa.Value]bool, depth int) bool
	anyDep = func(fn *ssa.Function, v ssa.Value, base func(ssa.Value) bool, seen map[ssa.Value]bool, depth int) bool {
		if v == nil || seen[v] || depth > 12 {
			return false
		}
		seen[v] = true
		if base(v) {
			return true
		}
		switch x := v.(type) {
		case *ssa.Parameter:
			// the size is handed to a helper: every caller must compute it from the marker
			pf := x.Parent()
			pi := paramIndex(pf, x)
			sites := p.callIndex().sites[pf]
			if pi < 0 || len(sites) == 0 || exportedAPI(pf) {
				return false
			}
			for _, site := range sites {
				if pi >= len(site.Common().Args) || !anyDep(site.Parent(), site.Common().Args[pi], base, map[ssa.Value]bool{}, depth+1) {
					return false
				}
			}
			return true
		case *ssa.Convert:
			return anyDep(fn, x.X, base, seen, depth+1)
		case *ssa.ChangeType:
			return anyDep(fn, x.X, base, seen, depth+1)
		case *ssa.BinOp:
			return anyDep(fn, x.X, base, seen, depth+1) || anyDep(fn, x.Y, base, seen, depth+1)
		case *ssa.Phi:
			for i, e := range x.Edges {
				if anyDep(fn, e, base, seen, depth+1) {
					return true
				}
				// control dependence of the φ on a comparison involving the base
				for _, cj := range edgeFacts(x.Block().Preds[i], x.Block(), 0, map[ssa.Value]bool{}) {
					for _, a := range cj {
						if _, l, r, ok := cmpAtom(a); ok && (anyDep(fn, l, base, map[ssa.Value]bool{}, depth+1) || anyDep(fn, r, base, map[ssa.Value]bool{}, depth+1)) {
							return true
						}
					}
				}
			}
		case *ssa.Extract:
			return anyDep(fn, x.Tuple, base, seen, depth+1)
		case *ssa.Call:
			sc := x.Common().StaticCallee()
			for _, a := range x.Common().Args {
				if anyDep(fn, a, base, seen, depth+1) {
					return true
				}
			}
			// the callee reads the markers itself (checkTruncate reads the tx snapshot)
			if sc != nil && p.InRepo(sc) {
				for _, b := range sc.Blocks {
					for _, ins := range b.Instrs {
						if val, ok := ins.(ssa.Value); ok && base(val) {
							return true
						}
					}
				}
			}
		case *ssa.UnOp:
			if a, ok := x.X.(*ssa.Alloc); ok && a.Referrers() != nil {
				for _, r := range *a.Referrers() {
					if st, ok := r.(*ssa.Store); ok && st.Addr == ssa.Value(a) && anyDep(fn, st.Val, base, seen, depth+1) {
						return true
					}
				}
			}
		}
		return false
	}
	_ = d
	check := func(fn *ssa.Function, c ssa.CallInstruction, size ssa.Value, what string) {
		rep.Analysed(funcName(fn))
		key := funcName(fn) + "|" + what
		both := anyDep(fn, size, areaLoad("data"), map[ssa.Value]bool{}, 0) && anyDep(fn, size, areaLoad("meta"), map[ssa.Value]bool{}, 0)
		if both {
			rep.OK("TRUNCATE-COVERS", key, p.InstrPos(c), "size computed from the data and the meta end marker")
			return
		}
		growOnly := p.ctxFacts(c.Block()).every(func(cj conj) bool {
			return cj.has(func(a atom) bool {
				op, x, y, ok := cmpAtom(a)
				if !ok {
					return false
				}
				isSz := func(v ssa.Value) bool { return loadedField(v) == fileSize }
				same := func(u, w ssa.Value) bool { return stripConv(u) == stripConv(w) || sameValueOrField(u, w) }
				switch op {
				case token.GTR, token.GEQ:
					return same(x, size) && isSz(y)
				case token.LSS, token.LEQ:
					return isSz(x) && same(y, size)
				}
				return false
			})
		})
		if growOnly {
			rep.OK("TRUNCATE-COVERS", key, p.InstrPos(c), "grow-only: dominated by size > current file size")
			return
		}
		rep.Bad("TRUNCATE-COVERS", key, p.InstrPos(c), "the file is truncated to a size that does not take both end markers into account and is not guarded to be grow-only: pages beyond that size which the committed state still uses are cut off")
	}
	n := 0
	for _, fn := range p.SrcFuncs() {
		if fnPkgPath(fn) != modPath || fn == initNew || fn == fTruncate {
			continue
		}
		for _, b := range fn.Blocks {
			for _, ins := range b.Instrs {
				c, ok := ins.(ssa.CallInstruction)
				if !ok {
					continue
				}
				if c.Common().IsInvoke() && c.Common().Method.Name() == "Truncate" && isNamed(c.Common().Value.Type(), modPath+"/internal/vfs", "File") {
					n++
					check(fn, c, c.Common().Args[0], "vfs.Truncate")
				} else if c.Common().StaticCallee() == fTruncate {
					n++
					check(fn, c, c.Common().Args[1], "File.truncate")
				}
			}
		}
	}
	if n == 0 {
		rep.Unknown("TRUNCATE-COVERS", "anchor", "", "no Truncate call found (anchor lost)")
	}
}

// ruleACKSCANFROMHEAD: the scan that collects the pages an ACK frees starts at the queue head (first page
// the queue still owns), not at the read position.
func ruleACKSCANFROMHEAD(p *Program, rep *Report) {
	rep.Rule("ACK-SCAN-FROM-HEAD", 1, "in acker.initACK the cursor that collects the pages to free is initialised from the queue head position (hdr.head): starting at the read position skips pages that were kept by an earlier ACK and leaks them")
	fn := p.Method("pq", "acker", "initACK")
	parse := p.Method("pq", "access", "ParsePosition")
	collect := p.Method("pq", "acker", "collectFreePages")
	head := p.FieldVar("pq", "queuePage", "head")
	pos := p.Struct("pq", "position")
	pageIdx := -1
	for i := 0; i < pos.NumFields(); i++ {
		if pos.Field(i).Name() == "page" {
			pageIdx = i
		}
	}
	if pageIdx < 0 {
		panic(vocabMiss{"pq.position.page"})
	}
	pl := &ackScanPlugin{parse: parse, collect: collect, origin: map[int]string{}, curCell: nil}
	in := newInterp(p, pl)
	pl.curCell = in.singleton(p.Named("pq", "cursor"))
	pl.pageIdx = pageIdx
	failed := ""
	func() {
		defer func() {
			if e := recover(); e != nil {
				failed = fmt.Sprintf("%v", e)
			}
		}()
		st := newState(noProp{})
		in.Run(fn, recvArgs(in, fn, PtrV{cell: in.singleton(p.Named("pq", "acker"))}), st)
		failed = in.failed
	}()
	rep.Analysed(in.enteredNames()...)
	where := p.Pos(fn.Pos())
	_ = head
	switch {
	case failed != "":
		rep.Unknown("ACK-SCAN-FROM-HEAD", "acker.initACK", where, "analysis did not complete: "+failed)
	case len(pl.seen) == 0:
		rep.Unknown("ACK-SCAN-FROM-HEAD", "acker.initACK", where, "collectFreePages is not reached with a resolvable cursor (anchor lost)")
	default:
		bad := false
		for _, o := range pl.seen {
			if o != "head" {
				bad = true
			}
		}
		if bad {
			rep.Bad("ACK-SCAN-FROM-HEAD", "acker.initACK|scan-start", where, "the page-collecting scan of the ACK starts at position {"+strings.Join(pl.seen, ",")+"} instead of the queue head: pages kept by an earlier ACK (and the continuation pages of a multi-page event) are never freed, the space held by the queue grows with total traffic")
		} else {
			rep.OK("ACK-SCAN-FROM-HEAD", "acker.initACK|scan-start", where, "cursor initialised from hdr.head")
		}
	}
}

type ackScanPlugin struct {
	basePlugin
	parse, collect *ssa.Function
	origin         map[int]string // page symbol -> header field the position was parsed from
	curCell        *Cell
	pageIdx        int
	seen           []string
}

func (o *ackScanPlugin) OnCall(in *Interp, fs *FState, site ssa.Instruction, callee *ssa.Function, fnv Value, args []Value) (bool, Value) {
	if callee == nil {
		return false, nil
	}
	switch callee {
	case o.parse:
		// ParsePosition(&hdr.<field>): remember which header field the page id came from
		which := "?"
		if pv, ok := args[len(args)-1].(PtrV); ok {
			which = pv.cell.key
		}
		st := callee.Signature.Results().At(0).Type().Underlying().(*types.Struct)
		res := StructV{fields: make([]Value, st.NumFields())}
		for i := range res.fields {
			res.fields[i] = in.top()
		}
		o.origin[symOf(res.fields[o.pageIdx])] = which
		return true, res
	case o.collect:
		// the cursor argument: *txCursor whose cursor field points to a cursor cell
		for _, a := range args {
			pv, ok := a.(PtrV)
			if !ok {
				continue
			}
			if n, ok := pv.cell.typ.(*types.Named); ok && n.Obj().Name() == "txCursor" {
				cur := in.loadCell(fs.st, in.fieldCell(pv.cell, "cursor"))
				if cp, ok := cur.(PtrV); ok {
					page := in.loadCell(fs.st, in.fieldCell(cp.cell, "page"))
					org, known := o.origin[symOf(page)]
					if !known {
						org = "unknown(" + page.vstr() + ")"
					}
					dup := false
					for _, s := range o.seen {
						if s == org {
							dup = true
						}
					}
					if !dup {
						o.seen = append(o.seen, org)
					}
				}
			}
		}
		return true, in.unknown(callee.Signature.Results())
	}
	if fnPkgPath(callee) == modPath {
		return true, in.unknown(callee.Signature.Results())
	}
	return false, nil
}
