package main

import (
	"fmt"
	"go/types"
	"sort"
	"strings"
	"time"

	"golang.org/x/tools/go/ssa"
)

// ---- scenario helpers shared by the engine-A rules ----

type scenario struct {
	name string
	// constants on singleton objects: "Type.field.path" -> value
	consts map[string]Value
}

func (in *Interp) applyScenario(st *State, sc scenario) {
	keys := make([]string, 0, len(sc.consts))
	for k := range sc.consts {
		keys = append(keys, k)
	}
	sort.Strings(keys)
	for _, k := range keys {
		parts := strings.SplitN(k, ".", 3) // pkg.Type.path
		n := in.P.Named(parts[0], parts[1])
		c := in.fieldCell(in.singleton(n), parts[2])
		in.storeCell(st, c, sc.consts[k])
	}
}

func txScenario(readonly, active bool) scenario {
	return scenario{
		name: fmt.Sprintf("tx(readonly=%v,active=%v)", readonly, active),
		consts: map[string]Value{
			"txfile.Tx.flags.readonly": constBool(readonly),
			"txfile.Tx.flags.active":   constBool(active),
		},
	}
}

// finishedTxScenario: the state Tx.close() leaves behind, read off the code: every field close() stores a
// nil/zero constant into is set to that constant.
func finishedTxScenario(p *Program, readonly bool) scenario {
	sc := txScenario(readonly, false)
	sc.name = fmt.Sprintf("tx-finished(readonly=%v)", readonly)
	closeFn := p.Method("txfile", "Tx", "close")
	txStruct := p.Struct("txfile", "Tx")
	for _, b := range closeFn.Blocks {
		for _, ins := range b.Instrs {
			s, ok := ins.(*ssa.Store)
			if !ok {
				continue
			}
			fa, ok := s.Addr.(*ssa.FieldAddr)
			if !ok || fa.X != closeFn.Params[0] {
				continue
			}
			f := txStruct.Field(fa.Field)
			if c, ok := s.Val.(*ssa.Const); ok && c.Value == nil && isNilable(f.Type()) {
				sc.consts["txfile.Tx."+f.Name()] = NilV{true}
			}
		}
	}
	return sc
}

func methodsOf(p *Program, pkg, typ string, exportedOnly bool) []*ssa.Function {
	n := p.Named(pkg, typ)
	ms := p.Prog.MethodSets.MethodSet(types.NewPointer(n))
	var out []*ssa.Function
	for i := 0; i < ms.Len(); i++ {
		sel := ms.At(i)
		if exportedOnly && !sel.Obj().Exported() {
			continue
		}
		fn := p.Prog.MethodValue(sel)
		if fn == nil || fn.Synthetic != "" && !strings.HasPrefix(fn.Synthetic, "wrapper") {
			continue
		}
		// skip promoted methods from embedded types of other packages
		if !p.InRepo(fn) {
			continue
		}
		out = append(out, fn)
	}
	sort.Slice(out, func(i, j int) bool { return out[i].Name() < out[j].Name() })
	return out
}

func recvArgs(in *Interp, fn *ssa.Function, recv Value) []Value {
	args := make([]Value, len(fn.Params))
	if len(args) > 0 {
		args[0] = recv
	}
	return args // nil entries are filled with typed unknowns by interpFunc
}

// ---- LOCKS rule ----

type lockExpect struct {
	// delta of the transaction lock (shared+reserved+txlock) from entry to exit, per error nil-ness
	okDelta, errDelta int
	flock             string // "", "open", "close"
}

type lockRoot struct {
	name   string
	fn     *ssa.Function
	sc     *scenario
	recv   string // singleton type of the receiver ("" = none)
	pkg    string
	init   map[string]int
	expect lockExpect
	role   string
	noEvents bool // no lock event may happen at all
}

func txLockTotal(p *lockProp) int { return p.n["shared"] + p.n["reserved"] + p.n["txlock"] }

func lockRootsTxfile(p *Program) []lockRoot {
	var roots []lockRoot
	roots = append(roots,
		lockRoot{name: "Open", fn: p.Func("txfile", "Open"), expect: lockExpect{flock: "open"}, role: "open"},
		lockRoot{name: "File.Close", fn: p.Method("txfile", "File", "Close"), recv: "File", expect: lockExpect{flock: "close"}, role: "close", init: map[string]int{"bgwriter": 1}},
	)
	for _, m := range []string{"Begin", "BeginReadonly", "BeginWith"} {
		roots = append(roots, lockRoot{name: "File." + m, fn: p.Method("txfile", "File", m), recv: "File", expect: lockExpect{okDelta: 1}, role: "begin"})
	}
	for _, ro := range []bool{false, true} {
		act := txScenario(ro, true)
		fin := finishedTxScenario(p, ro)
		role := "writer"
		if ro {
			role = "reader"
		}
		for _, fn := range methodsOf(p, "txfile", "Tx", true) {
			a, f := act, fin
			switch fn.Name() {
			case "Commit", "Rollback", "Close":
				roots = append(roots, lockRoot{name: "Tx." + fn.Name() + "[" + act.name + "]", fn: fn, sc: &a, recv: "Tx",
					init: map[string]int{"txlock": 1}, expect: lockExpect{okDelta: -1, errDelta: -1}, role: role})
			default:
				roots = append(roots, lockRoot{name: "Tx." + fn.Name() + "[" + act.name + "]", fn: fn, sc: &a, recv: "Tx",
					init: map[string]int{"txlock": 1}, role: role})
			}
			roots = append(roots, lockRoot{name: "Tx." + fn.Name() + "[" + fin.name + "]", fn: fn, sc: &f, recv: "Tx", role: role, noEvents: true})
		}
		for _, fn := range methodsOf(p, "txfile", "Page", true) {
			a := act
			roots = append(roots, lockRoot{name: "Page." + fn.Name() + "[" + act.name + "]", fn: fn, sc: &a, recv: "Page",
				init: map[string]int{"txlock": 1}, role: role})
		}
	}
	roots = append(roots, lockRoot{name: "writer.Run", fn: p.Method("txfile", "writer", "Run"), recv: "writer", role: "bgwriter"})
	return roots
}

type lockRun struct {
	root   lockRoot
	in     *Interp
	pl     *locksPlugin
	exits  []Exit
	failed string
}

func runLockRoot(p *Program, voc *locksVocab, r lockRoot, record bool, nilDeref bool) (res *lockRun) {
	pl := newLocksPlugin(voc, r.role)
	pl.record = record
	pl.nilDeref = nilDeref
	pl.pqLevel = r.pkg == "pq"
	in := newInterp(p, pl)
	in.Relevant = voc.relevant
	in.OnSkip = pl.onSkip
	in.OnLearnNil = pl.learnNil
	res = &lockRun{root: r, in: in, pl: pl}
	defer func() {
		if e := recover(); e != nil {
			if vm, ok := e.(vocabMiss); ok {
				res.failed = vm.Error()
				return
			}
			res.failed = fmt.Sprintf("analysis panic: %v", e)
		}
	}()
	prop := newLockProp()
	for k, v := range r.init {
		prop.n[k] = v
	}
	st := newState(prop)
	if r.sc != nil {
		in.applyScenario(st, *r.sc)
	}
	var recv Value
	if r.recv != "" {
		pkg := r.pkg
		if pkg == "" {
			pkg = "txfile"
		}
		recv = PtrV{cell: in.singleton(p.Named(pkg, r.recv))}
	}
	args := recvArgs(in, r.fn, recv)
	if r.recv == "" {
		args = make([]Value, len(r.fn.Params))
	}
	res.exits = in.Run(r.fn, args, st)
	res.failed = in.failed
	return res
}

func describeExit(fn *ssa.Function, e Exit) string {
	p := e.st.prop.(*lockProp)
	errs := map[int8]string{-1: "-", 0: "?", 1: "nil", 2: "non-nil"}
	fl := resName(e.st, p.flock, "HELD", "lock-failed", "held-if-lock-ok", "released")
	mm := resName(e.st, p.mmap, "MAPPED", "mmap-failed", "mapped-if-ok", "unmapped")
	return fmt.Sprintf("exit err=%s held={%s} flock=%s mmap=%s bgwriter=%d", errs[errOfExit(fn, e)], strings.Join(p.held(), ","), fl, mm, p.n["bgwriter"])
}

// checkLockContracts turns the exits and reports of one root into obligations.
func checkLockContracts(rep *Report, rule string, run *lockRun) {
	r := run.root
	key := r.name
	rep.Analysed(run.in.enteredNames()...)
	if run.failed != "" {
		rep.Unknown(rule, key, "", "analysis did not complete: "+run.failed)
		return
	}
	// reports raised inside (misuse, precondition, order)
	nilDerefs := 0
	for _, ar := range run.in.reports {
		if ar.Kind == "NILDEREF" {
			nilDerefs++
			continue // definite nil dereferences are decided by LIFECYCLE (C15 / C08), not by the lock rules
		}
		k := fmt.Sprintf("%s|%s|%s|%s", r.name, ar.Kind, ar.Fn, ar.Msg)
		rep.Bad(rule, k, ar.Pos, ar.Kind+": "+ar.Msg, "root "+r.name, "via "+strings.Join(ar.Chain, ">"))
	}
	if len(run.exits) == 0 {
		// no surviving exit: every path ends in a panic / definite nil dereference.
		switch {
		case nilDerefs > 0:
			rep.OK(rule, key, run.in.P.Pos(r.fn.Pos()), "no normal exit: every path ends in a panic (definite nil dereference, decided under C15); nothing is held at a return")
		case len(run.in.reports) == 0:
			rep.Unknown(rule, key, "", "no exit reached and nothing reported")
		}
		return
	}
	entryTx := r.init["txlock"]
	okAll := true
	for _, e := range run.exits {
		p := e.st.prop.(*lockProp)
		en := errOfExit(r.fn, e)
		desc := describeExit(r.fn, e)
		var problems []string
		for _, c := range []string{"pending", "exclusive", "mu", "mux"} {
			if p.n[c] != 0 {
				problems = append(problems, fmt.Sprintf("%s still held (count %d)", c, p.n[c]))
			}
		}
		for k, v := range p.n {
			if strings.HasPrefix(k, "mutex:") && v != 0 {
				problems = append(problems, k+" still held")
			}
		}
		delta := txLockTotal(p) - entryTx
		want := r.expect.okDelta
		if en == 2 {
			want = r.expect.errDelta
		}
		if en == 0 && r.expect.okDelta != r.expect.errDelta {
			// undetermined error nil-ness: either delta acceptable is not decidable -> require ok one
			if delta != r.expect.okDelta && delta != r.expect.errDelta {
				problems = append(problems, fmt.Sprintf("transaction lock delta %+d (expected %+d on success, %+d on error)", delta, r.expect.okDelta, r.expect.errDelta))
			}
		} else if delta != want {
			problems = append(problems, fmt.Sprintf("transaction lock delta %+d, expected %+d", delta, want))
		}
		if r.name == "Open" || r.name == "File.Close" || r.role == "bgwriter" {
			if txLockTotal(p) != 0 {
				problems = append(problems, "a transaction lock (shared/reserved) is still held")
			}
		}
		// resources of an open File: background writer goroutine and memory mapping
		if r.expect.flock != "" {
			mapped := resState(e.st, p.mmap) == 1 || resState(e.st, p.mmap) == 0
			definitelyMapped := resState(e.st, p.mmap) == 1
			switch {
			case r.expect.flock == "open" && en == 2:
				if p.n["bgwriter"] != 0 {
					problems = append(problems, "the background writer started for the File is not stopped on an error exit of Open (File not closed)")
				}
				if mapped {
					problems = append(problems, "the file stays memory mapped on an error exit of Open")
				}
			case r.expect.flock == "open" && en == 1:
				if p.n["bgwriter"] != 1 {
					problems = append(problems, fmt.Sprintf("success exit of Open with %d background writer(s) running, expected 1", p.n["bgwriter"]))
				}
				if !definitelyMapped {
					problems = append(problems, "success exit of Open without a memory mapping")
				}
			case r.expect.flock == "close":
				if p.n["bgwriter"] != 0 {
					problems = append(problems, "File.Close does not stop the background writer")
				}
				if p.mmap != resReleased {
					problems = append(problems, "File.Close does not unmap the file")
				}
			}
		}
		switch r.expect.flock {
		case "open":
			held := resState(e.st, p.flock) == 1 || resState(e.st, p.flock) == 0
			definitelyHeld := resState(e.st, p.flock) == 1
			if en == 2 && held {
				problems = append(problems, "path lock may still be held on an error exit of Open")
			}
			if en == 1 && !definitelyHeld {
				problems = append(problems, "path lock not held on the success exit of Open")
			}
		case "close":
			if p.flock != resReleased {
				problems = append(problems, "path lock not released by File.Close")
			}
		}
		if len(p.pqtx) > 0 {
			for _, t := range p.pqtx {
				if e.st.nilF[t.sym] != 2 {
					problems = append(problems, "transaction begun at "+t.site+" is not closed on this exit")
				}
			}
		}
		if len(problems) > 0 {
			okAll = false
			rep.Bad(rule, key+"|exit|"+strings.Join(problems, "; "), run.in.P.Pos(r.fn.Pos()), "lock contract violated at an exit of "+r.name+": "+strings.Join(problems, "; "), desc)
		}
	}
	if r.noEvents && run.pl.events > 0 {
		okAll = false
		rep.Bad(rule, key+"|no-events", run.in.P.Pos(r.fn.Pos()), fmt.Sprintf("%d lock event(s) on a finished transaction", run.pl.events))
	}
	if okAll {
		var ds []string
		for _, e := range run.exits {
			ds = append(ds, describeExit(r.fn, e))
		}
		rep.OK(rule, key, run.in.P.Pos(r.fn.Pos()), fmt.Sprintf("%d exit class(es): %s", len(run.exits), strings.Join(ds, " | ")))
	}
}

// lock order: the union of acquisition edges must be consistent with the declared order.
var lockRank = map[string]int{"flock": 0, "txlock": 1, "reserved": 1, "shared": 1, "pending": 2, "exclusive": 3, "mu": 4, "mux": 4}

func checkLockOrder(rep *Report, rule string, runs []*lockRun) {
	edges := map[string]string{}
	for _, r := range runs {
		for e, site := range r.pl.order {
			if _, ok := edges[e]; !ok {
				edges[e] = site + " (root " + r.root.name + ")"
			}
		}
	}
	keys := make([]string, 0, len(edges))
	for e := range edges {
		keys = append(keys, e)
	}
	sort.Strings(keys)
	for _, e := range keys {
		ab := strings.SplitN(e, "->", 2)
		ra, oka := lockRank[ab[0]]
		rb, okb := lockRank[ab[1]]
		switch {
		case !oka || !okb:
			rep.OK(rule, "edge|"+e, "", "edge involving an unranked lock, first at "+edges[e])
		case ra > rb:
			rep.Bad(rule, "edge|"+e, "", "acquisition order "+e+" contradicts the declared order Reserved < Pending < Exclusive < lock.mu/writer.mux; first at "+edges[e])
		default:
			rep.OK(rule, "edge|"+e, "", "first at "+edges[e])
		}
	}
}

func ruleLOCKS(p *Program, rep *Report, filter func(lockRoot) bool, withOrder bool) []*lockRun {
	rep.Rule("LOCKS", 1, "every lock acquired is released on every exit of every API root; API lock contracts per exit, split by error nil-ness (engine A, LOCKS plug-in)")
	voc := newLocksVocab(p)
	var runs []*lockRun
	for _, r := range lockRootsTxfile(p) {
		if filter != nil && !filter(r) {
			continue
		}
		if debugRoot != "" && !strings.Contains(r.name, debugRoot) {
			continue
		}
		t0 := time.Now()
		run := runLockRoot(p, voc, r, false, true)
		if debugVerbose && run.failed != "" {
			type kv struct {
				k string
				v int
			}
			var l []kv
			for k, v := range run.in.calls {
				l = append(l, kv{k, v})
			}
			sort.Slice(l, func(i, j int) bool { return l[i].v > l[j].v })
			for i := 0; i < 25 && i < len(l); i++ {
				fmt.Println("     hot:", l[i].v, l[i].k)
			}
		}
		if debugVerbose && debugRoot != "" {
			for _, e := range run.exits {
				fmt.Println("     ", describeExit(r.fn, e), " ret=", e.ret.vstr())
			}
			for _, ar := range run.in.reports {
				fmt.Println("      report:", ar.Kind, ar.Msg, ar.Pos, strings.Join(ar.Chain, ">"))
			}
			fmt.Println("      skipped:", len(run.in.skipped), "entered:", len(run.in.entered))
		}
		if debugVerbose {
			fmt.Printf("root %-60s %8.2fs exits=%d reports=%d calls=%d failed=%q\n", r.name, time.Since(t0).Seconds(), len(run.exits), len(run.in.reports), interpBudget-run.in.budget, run.failed)
		}
		checkLockContracts(rep, "LOCKS", run)
		runs = append(runs, run)
	}
	if withOrder {
		rep.Rule("LOCK-ORDER", 3, "acquisition edges over all roots are consistent with Reserved < Pending < Exclusive < internal mutexes; Exclusive only under Pending, Pending only under Reserved")
		checkLockOrder(rep, "LOCK-ORDER", runs)
	}
	return runs
}

// resState: 1 held, 2 not held (failed / released / never attempted), 0 held iff the pending error is nil (undecided)
func resState(st *State, r int) int {
	switch {
	case r == resHeld:
		return 1
	case r == resFailed, r == resReleased, r == 0:
		return 2
	case r > 0:
		switch st.nilF[r] {
		case 1:
			return 1
		case 2:
			return 2
		}
		return 0
	}
	return 2
}

func resName(st *State, r int, held, failed, pending, released string) string {
	switch {
	case r == 0:
		return "n/a"
	case r == resReleased:
		return released
	case r == resFailed:
		return failed
	}
	switch resState(st, r) {
	case 1:
		return held
	case 2:
		return failed
	}
	return pending
}
