package main

// REGION-CODEC (C10, C01): the free-list entry encoder, its size prediction and the decoder agree on which
// page counts are stored inline.  The count is only ever touched through comparisons with constants, so
// the agreement is decided exactly on the finite set of critical values of those constants.

import (
	"fmt"
	"go/constant"
	"go/token"
	"go/types"
	"sort"

	"golang.org/x/tools/go/ssa"
)

// pureCopyOf: v is base(v) up to conversions, or a parameter that every call site feeds with such a value.
func pureCopyOf(p *Program, v ssa.Value, base func(ssa.Value) bool, depth int) bool {
	for {
		if v == nil || depth > 4 {
			return false
		}
		if base(v) {
			return true
		}
		switch x := v.(type) {
		case *ssa.Convert:
			v = x.X
			continue
		case *ssa.ChangeType:
			v = x.X
			continue
		case *ssa.Parameter:
			fn := x.Parent()
			pi := paramIndex(fn, x)
			sites := p.callIndex().sites[fn]
			if pi < 0 || len(sites) == 0 {
				return false
			}
			for _, s := range sites {
				if pi >= len(s.Common().Args) || !pureCopyOf(p, s.Common().Args[pi], base, depth+1) {
					return false
				}
			}
			return true
		}
		return false
	}
}

func constUint(v ssa.Value) (uint64, bool) {
	c, ok := stripConv(v).(*ssa.Const)
	if !ok || c.Value == nil || c.Value.Kind() != constant.Int {
		return 0, false
	}
	return constant.Uint64Val(c.Value)
}

func evalCmp(op token.Token, x, y uint64) bool {
	switch op {
	case token.EQL:
		return x == y
	case token.NEQ:
		return x != y
	case token.LSS:
		return x < y
	case token.LEQ:
		return x <= y
	case token.GTR:
		return x > y
	case token.GEQ:
		return x >= y
	}
	return false
}

// codecPred evaluates guard facts for a concrete value of the variable recognised by isVar.
type codecPred struct {
	p      *Program
	isVar  func(ssa.Value) bool
	consts map[uint64]bool // constants the variable is compared with (critical values)
	opaque []string        // atoms about the variable that could not be evaluated
}

// atom3: 1 true, 0 false, -1 not about the variable (unconstrained)
func (c *codecPred) atom3(a atom, x uint64, depth int) int {
	if op, l, r, ok := cmpAtom(a); ok {
		lv, rv := pureCopyOf(c.p, l, c.isVar, 0), pureCopyOf(c.p, r, c.isVar, 0)
		if lv || rv {
			other := r
			if rv {
				other = l
			}
			k, isConst := constUint(other)
			if !isConst {
				c.opaque = append(c.opaque, a.v.String())
				return -1
			}
			c.consts[k] = true
			res := evalCmp(op, x, k)
			if rv && !lv { // constant on the left: k op x
				res = evalCmp(op, k, x)
			}
			if res {
				return 1
			}
			return 0
		}
		return -1
	}
	// a boolean helper: f(count) whose every return is a comparison of its parameter with a constant
	if call, ok := a.v.(*ssa.Call); ok && depth < 2 {
		sc := call.Common().StaticCallee()
		if sc == nil || !c.p.InRepo(sc) || len(sc.Blocks) == 0 {
			return -1
		}
		about := false
		for _, arg := range call.Common().Args {
			if pureCopyOf(c.p, arg, c.isVar, 0) {
				about = true
			}
		}
		if !about {
			return -1
		}
		// evaluate the callee: result is true on the returns whose guard holds and whose value holds
		res, decided := false, true
		for _, b := range sc.Blocks {
			ret, isRet := b.Instrs[len(b.Instrs)-1].(*ssa.Return)
			if !isRet || len(ret.Results) != 1 {
				continue
			}
			reach := c.holds(blockFacts(b), x, depth+1)
			if !reach {
				continue
			}
			for _, cj := range condDNF(ret.Results[0], true, 0, map[ssa.Value]bool{}) {
				ok3 := true
				for _, at := range cj {
					switch c.atom3(at, x, depth+1) {
					case 0:
						ok3 = false
					case -1:
						if _, isCmp := at.v.(*ssa.BinOp); !isCmp {
							decided = false
						}
					}
				}
				if ok3 {
					res = true
				}
			}
		}
		if !decided {
			c.opaque = append(c.opaque, a.v.String())
			return -1
		}
		if res == a.pol {
			return 1
		}
		return 0
	}
	return -1
}

// holds: some disjunct of d is satisfiable with variable = x (atoms not about the variable are unconstrained)
func (c *codecPred) holds(d dnf, x uint64, depth int) bool {
	for _, cj := range d {
		ok := true
		for _, a := range cj {
			if c.atom3(a, x, depth) == 0 {
				ok = false
				break
			}
		}
		if ok {
			return true
		}
	}
	return false
}

func ruleREGIONCODEC(p *Program, rep *Report) {
	rep.Rule("REGION-CODEC", 3, "free-list entries: for every page count, the encoder stores the count inline only if it fits the counter bits and is not the value the decoder takes for the overflow marker, and the size prediction agrees with the encoder on which counts need the extra word — otherwise a region is mis-decoded (lost or garbage pages) after close/reopen or recovery")
	enc := p.Func("txfile", "encodeRegion")
	dec := p.Func("txfile", "decodeRegion")
	size := p.Func("txfile", "regionEncodingSize")
	castU32 := p.Func("txfile", "castU32")
	count := p.FieldVar("txfile", "region", "count")
	isCount := func(v ssa.Value) bool { return loadedField(v) == count }

	// blocks of interest
	type site struct {
		b   *ssa.BasicBlock
		pos string
	}
	find := func(root *ssa.Function, pred func(ins ssa.Instruction) bool) []site {
		var out []site
		for _, fn := range sortedFns(staticReach(p, root)) {
			if fnPkgPath(fn) != modPath {
				continue
			}
			for _, b := range fn.Blocks {
				for _, ins := range b.Instrs {
					if pred(ins) {
						out = append(out, site{b, p.InstrPos(ins)})
					}
				}
			}
		}
		return out
	}
	isCastU32 := func(ins ssa.Instruction) bool {
		c, ok := ins.(*ssa.Call)
		return ok && c.Common().StaticCallee() == castU32
	}
	// encoder: inline path = the count is shifted into the entry word
	encInline := find(enc, func(ins ssa.Instruction) bool {
		bo, ok := ins.(*ssa.BinOp)
		return ok && bo.Op == token.SHL && pureCopyOf(p, bo.X, isCount, 0)
	})
	encOver := find(enc, isCastU32)
	decOver := find(dec, isCastU32)
	sizeOver := find(size, func(ins ssa.Instruction) bool {
		bo, ok := ins.(*ssa.BinOp)
		return ok && bo.Op == token.ADD
	})
	if len(encInline) != 1 || len(encOver) != 1 || len(decOver) != 1 || len(sizeOver) != 1 {
		rep.Unknown("REGION-CODEC", "anchor", p.Pos(enc.Pos()), fmt.Sprintf("encoder/decoder paths not identified (inline stores %d, encoder overflow words %d, decoder overflow words %d, size additions %d)", len(encInline), len(encOver), len(decOver), len(sizeOver)))
		return
	}
	rep.Analysed(funcName(enc))
	rep.Analysed(funcName(dec))
	rep.Analysed(funcName(size))

	// decoder: the counter value(s) for which the extra word is read, and the mask applied to the counter bits
	var mask uint64
	isBits := func(v ssa.Value) bool {
		bo, ok := v.(*ssa.BinOp)
		if !ok || bo.Op != token.AND {
			return false
		}
		for _, side := range []ssa.Value{bo.X, bo.Y} {
			if k, ok := constUint(side); ok && k < 1<<16 {
				mask = k
				return true
			}
		}
		return false
	}
	dp := &codecPred{p: p, isVar: isBits, consts: map[uint64]bool{}}
	dFacts := p.ctxFacts(decOver[0].b)
	dp.holds(dFacts, 0, 0) // collect constants and the mask
	if mask == 0 || len(dp.opaque) > 0 {
		rep.Unknown("REGION-CODEC", "decoder|marker", decOver[0].pos, fmt.Sprintf("decoder: condition for reading the overflow word not evaluable (mask %d, opaque %v)", mask, dp.opaque))
		return
	}
	var markers []uint64
	for x := uint64(0); x <= mask; x++ {
		if dp.holds(dFacts, x, 0) {
			markers = append(markers, x)
		}
	}
	if len(markers) == 0 || len(markers) > 4 {
		rep.Unknown("REGION-CODEC", "decoder|marker", decOver[0].pos, fmt.Sprintf("decoder reads the overflow word for %d counter values", len(markers)))
		return
	}
	rep.OK("REGION-CODEC", "decoder|marker", decOver[0].pos, fmt.Sprintf("decoder reads the extra word iff counter bits (mask %d) ∈ %v", mask, markers))

	ep := &codecPred{p: p, isVar: isCount, consts: map[uint64]bool{}}
	inFacts, ovFacts, szFacts := p.ctxFacts(encInline[0].b), p.ctxFacts(encOver[0].b), p.ctxFacts(sizeOver[0].b)
	for _, f := range []dnf{inFacts, ovFacts, szFacts} {
		ep.holds(f, 0, 0)
	}
	if len(ep.opaque) > 0 {
		rep.Unknown("REGION-CODEC", "encoder|inline-range", encInline[0].pos, fmt.Sprintf("encoder guard on the page count not evaluable: %v", ep.opaque))
		return
	}
	// critical values: every constant the count is compared with, ±1, the mask, the markers, the extremes
	crit := map[uint64]bool{0: true, 1: true, mask: true, mask + 1: true, 1<<32 - 1: true}
	for k := range ep.consts {
		crit[k] = true
		crit[k+1] = true
		if k > 0 {
			crit[k-1] = true
		}
	}
	for _, m := range markers {
		crit[m] = true
	}
	var xs []uint64
	for x := range crit {
		if x < 1<<32 {
			xs = append(xs, x)
		}
	}
	sort.Slice(xs, func(i, j int) bool { return xs[i] < xs[j] })
	isMarker := func(x uint64) bool {
		for _, m := range markers {
			if m == x {
				return true
			}
		}
		return false
	}
	bad := ""
	for _, x := range xs {
		if ep.holds(inFacts, x, 0) && (x > mask || isMarker(x)) {
			bad = fmt.Sprintf("a region of %d pages is stored inline, but the decoder takes counter value %d for the overflow marker / the count does not fit the counter bits (mask %d): the entry is decoded with a wrong count and length", x, x&mask, mask)
			break
		}
	}
	if bad != "" {
		rep.Bad("REGION-CODEC", "encoder|inline-range", encInline[0].pos, bad)
	} else {
		rep.OK("REGION-CODEC", "encoder|inline-range", encInline[0].pos, fmt.Sprintf("inline counts exclude the marker(s) %v and fit mask %d (checked on %d critical values)", markers, mask, len(xs)))
	}
	bad = ""
	for _, x := range xs {
		if ep.holds(ovFacts, x, 0) != ep.holds(szFacts, x, 0) {
			bad = fmt.Sprintf("for a region of %d pages the size prediction and the encoder disagree on the extra count word", x)
			break
		}
		if ep.holds(ovFacts, x, 0) == ep.holds(inFacts, x, 0) {
			bad = fmt.Sprintf("for a region of %d pages the encoder's inline and overflow paths are not exclusive/exhaustive", x)
			break
		}
	}
	if bad != "" {
		rep.Bad("REGION-CODEC", "size|agrees-with-encoder", sizeOver[0].pos, bad)
	} else {
		rep.OK("REGION-CODEC", "size|agrees-with-encoder", sizeOver[0].pos, "size prediction and encoder agree on every critical count")
	}
	_ = types.Typ
}
