# Claims table for gen_manifest.py.  id -> (technique, claim text, DESIGN.md ref)
CLAIMS = {
 "C09": ("typestate / lock-pairing analysis by interprocedural abstract interpretation of go/ssa (path-sensitive on error nil-ness, defers and flags); lock-order graph",
         "Decides on every path of every exported root (Open, File.Close, Begin*, every Tx and Page method, per role and lifecycle scenario, and the background writer) that each in-process lock acquired is released, that the per-exit API lock contract holds (Begin +1, Commit/Rollback/Close -1, everything else 0; Pending/Exclusive/internal mutexes idle at every return), that Exclusive is only awaited under Pending and Pending only under the writer lock, and that the acquisition-order graph is acyclic and consistent with Reserved < Pending < Exclusive < internal mutexes. Does not decide condition-variable progress or actual interleavings.",
         "§3 C09"),
}

_WIP = "not claimed yet: the rules for this property are still under construction in this round (see DESIGN.md §3 for the planned clauses)"
NOT_APPLICABLE = {
 "C05": "exactly-once/in-order/byte-identical delivery is a numeric framing and round-trip property over runtime sizes and offsets; no clause of it is visible in the shape of the code without evaluating the arithmetic (symbolic execution, a different technique family). See DESIGN.md §5.",
}
for _p in ["C01","C02","C03","C04","C06","C07","C08","C10","C11","C12","C13","C14","C15","C16","C17","C18"]:
    NOT_APPLICABLE[_p] = _WIP
