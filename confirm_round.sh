#!/bin/bash
# confirm_round.sh <Cxx>... : confirm /tmp/seed/<Cxx>/_seed with confirm_seed.sh; log to /tmp/seed/<Cxx>/_seed/confirm.log
for s in "$@"; do
  d=/tmp/seed/$s/_seed
  sub=.
  grep -q '^package pq' $d/zz_seed_test.go && sub=pq
  /verif/confirm_seed.sh $d $sub TestSeed > $d/confirm.log 2>&1
  echo "== $s ($sub)"; grep -v WARNING $d/confirm.log | cut -c1-200
done
