#!/bin/bash
# confirm_seed.sh <seed-dir> <demo-subdir ('.' or 'pq')> <test-regex> : confirm a seeded change independently
# in a scratch worktree of /repo HEAD: (1) suite passes with the change, (2) demo fails with it, (3) demo passes without.
set -u
export GOFLAGS=-mod=mod GOPROXY=off GOSUMDB=off GOTOOLCHAIN=local
sd="$1"; sub="$2"; rx="$3"
wt=$(mktemp -d /tmp/confirm-XXXXXX)
git -C /repo worktree add -q --detach "$wt" HEAD || exit 2
cd "$wt"
cp "$sd"/zz_seed_test.go "$sub"/zz_seed_test.go
echo "--- demo WITHOUT change:"; go test -count=1 -run "$rx" ./"$sub" 2>&1 | grep -v "^maxUint" | tail -3
git apply "$sd"/patch.diff || echo "PATCH DOES NOT APPLY"
echo "--- demo WITH change:"; go test -count=1 -run "$rx" ./"$sub" 2>&1 | grep -v "^maxUint" | grep -m6 "FAIL\|ok\|Error\|zz_seed"
rm "$sub"/zz_seed_test.go
echo "--- full suite WITH change:"; go test -count=1 ./... 2>&1 | grep -v "no test files\|^maxUint" | tail -8
cd /; git -C /repo worktree remove --force "$wt"
