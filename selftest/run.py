#!/usr/bin/env python3
"""Self-test of the checker (thorough tier, still static): every variant of selftest/corpus.json that
concerns the property is applied to /repo's current source as an in-memory overlay (packages.Overlay;
nothing is executed, /repo is not modified) and the property's check is run on it.
 mutant  -> the check must report a violation naming one of the expected rules   (detected / MISSED)
 neutral -> the check must stay silent                                           (silent   / NOISY)
A variant whose anchor does not occur exactly once in today's tree is 'skipped'.
Outcomes are evidence and warnings only; they never change the exit code of the check."""
import json, os, subprocess, sys, tempfile, concurrent.futures as cf

def main():
    prop, out = sys.argv[1], sys.argv[2]
    verif = os.path.dirname(os.path.dirname(os.path.abspath(__file__)))
    repo = os.environ.get("TXLINT_REPO", "/repo")
    only = set(sys.argv[3:])
    corpus = [v for v in json.load(open(os.path.join(verif, "selftest", "corpus.json"))) if prop in v["props"] and (not only or v["name"] in only)]
    tmp = tempfile.mkdtemp(prefix="txlint-selftest-")
    def run_patch(v):
        # a seeded change kept as a unified diff: apply it to copies of the touched files
        import re, shutil
        pf = os.path.join(verif, v["patch"])
        files = sorted(set(re.findall(r"^\+\+\+ b/(\S+)", open(pf).read(), re.M)))
        d = os.path.join(tmp, v["name"])
        os.makedirs(d, exist_ok=True)
        try:
            for f in files:
                os.makedirs(os.path.dirname(os.path.join(d, f)) or d, exist_ok=True)
                shutil.copy(os.path.join(repo, f), os.path.join(d, f))
            r = subprocess.run(["patch", "-p1", "-s", "-f", "-d", d, "-i", pf], capture_output=True, text=True)
            if r.returncode != 0:
                return dict(name=v["name"], kind=v["kind"], outcome="skipped", detail="patch does not apply to the current tree")
            ov = ",".join("%s=%s" % (f, os.path.join(d, f)) for f in files)
            r = subprocess.run([os.path.join(verif, "bin", "txlint"), "-prop", prop, "-no-evidence", "-repo", repo, "-verif", verif, "-overlay", ov], capture_output=True, text=True)
        finally:
            shutil.rmtree(d, ignore_errors=True)
        return classify(v, r)

    def classify(v, r):
        viol = [l for l in r.stdout.splitlines() if l.startswith("VIOLATED") or l.startswith("UNDECIDED")]
        rules = sorted({l.split()[1] for l in viol})
        if r.returncode == 2:
            return dict(name=v["name"], kind=v["kind"], outcome="skipped", detail="variant does not type-check on the current tree")
        if v["kind"] == "mutant":
            hit = [x for x in rules if x in v["expect"]]
            if r.returncode == 1 and hit:
                return dict(name=v["name"], kind="mutant", outcome="detected", expected=",".join(v["expect"]), detail="; ".join(viol[:2])[:400])
            if r.returncode == 1:
                return dict(name=v["name"], kind="mutant", outcome="detected-by-other-rule", expected=",".join(v["expect"]), detail="; ".join(viol[:2])[:400])
            return dict(name=v["name"], kind="mutant", outcome="MISSED", expected=",".join(v["expect"]), detail="check stayed silent")
        if r.returncode == 0:
            return dict(name=v["name"], kind="neutral", outcome="silent")
        return dict(name=v["name"], kind="neutral", outcome="NOISY", detail="; ".join(viol[:2])[:400])

    def run(v):
        if "patch" in v:
            return run_patch(v)
        src = os.path.join(repo, v["file"])
        try:
            s = open(src).read()
        except OSError:
            return dict(name=v["name"], kind=v["kind"], outcome="skipped", detail="file missing")
        if s.count(v["old"]) != 1:
            return dict(name=v["name"], kind=v["kind"], outcome="skipped", detail="anchor occurs %d times in the current tree" % s.count(v["old"]))
        t = os.path.join(tmp, v["name"] + ".go")
        open(t, "w").write(s.replace(v["old"], v["new"]) + v.get("extra_decl", ""))
        r = subprocess.run([os.path.join(verif, "bin", "txlint"), "-prop", prop, "-no-evidence", "-repo", repo, "-verif", verif,
                            "-overlay", "%s=%s" % (v["file"], t)], capture_output=True, text=True)
        os.remove(t)
        return classify(v, r)
    with cf.ThreadPoolExecutor(int(os.environ.get("TXLINT_JOBS", "12"))) as ex:
        res = list(ex.map(run, corpus))
    import shutil as _sh
    _sh.rmtree(tmp, ignore_errors=True)
    json.dump(res, open(out, "w"), indent=1)
    for r in res:
        if r["outcome"] in ("MISSED", "NOISY"):
            print("SELFTEST-WARNING: property=%s variant=%s %s (%s)" % (prop, r["name"], r["outcome"], r.get("detail", "")))
    n = lambda o: sum(1 for r in res if r["outcome"] == o)
    print("selftest %s: %d variants: %d detected, %d detected-by-other-rule, %d missed, %d silent, %d noisy, %d skipped" % (
        prop, len(res), n("detected"), n("detected-by-other-rule"), n("MISSED"), n("silent"), n("NOISY"), n("skipped")))

if __name__ == "__main__":
    main()
