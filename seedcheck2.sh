#!/bin/bash
# seedcheck2.sh <seed-id> [props...] : apply /tmp/seed/<id>/_seed/patch.diff inside that worktree and analyse it there (does not touch /repo)
s="$1"; shift
props="${*:-$s}"
[ "$props" = all ] && props="C01 C02 C03 C04 C05 C06 C07 C08 C09 C10 C11 C12 C13 C14 C15 C16 C17 C18"
cd /tmp/seed/$s && git checkout -q -- . && git apply _seed/patch.diff || { echo "patch does not apply"; exit 2; }
cd /verif
for p in $props; do
  ( out=$(./bin/txlint -prop $p -no-evidence -repo /tmp/seed/$s 2>&1); rc=$?
  echo "$s: $p rc=$rc $(echo "$out" | grep -c '^VIOLATED\|^UNDECIDED') finding(s)
$(echo "$out" | grep '^VIOLATED\|^UNDECIDED' | cut -c1-330 | head -5)" ) &
done
wait
git -C /tmp/seed/$s checkout -q -- .
